//! C01 — SELECT results agree with reference SQL semantics (bundled SQLite) on the common subset.

use serde::{Deserialize, Serialize};
use vcore::engine;
use vcore::sql::gen::*;
use vcore::sql::ir::*;
use vcore::sqlite::Lite;
use vcore::val::{multiset_eq, seq_eq, show_rows, CRow, CV};
use vcore::{Check, GenCfg, Obs, Tape, Tier, Verdict};

pub struct C01;

#[derive(Clone, Debug, Serialize, Deserialize)]
pub struct Case {
    pub world: World,
    pub query: Query,
    pub feats: Vec<String>,
    /// verif hook: columnar gate forced off (the columnar path's agreement with the row path is C03's subject)
    #[serde(default)]
    pub columnar_off: bool,
    /// number of generator switches turned off because of open known findings
    #[serde(default)]
    pub excluded: u32,
    /// hand-written regression input: same SQL text for both engines (overrides world/query rendering)
    #[serde(default)]
    pub raw: Option<RawSql>,
}

#[derive(Clone, Debug, Serialize, Deserialize)]
pub struct RawSql {
    pub setup: Vec<String>,
    pub query: String,
    pub ordered: bool,
    /// trigger name to classify a failure under (empty = unclassified)
    #[serde(default)]
    pub trigger: String,
}

fn run_raw(r: &RawSql, obs: &mut Obs) -> Verdict {
    let mut db = vibesql_storage::Database::new();
    let lite = match Lite::new() {
        Ok(l) => l,
        Err(e) => return Verdict::Harness(e),
    };
    for st in &r.setup {
        if let Err(e) = engine::exec(&mut db, st) {
            return Verdict::Harness(format!("vibesql rejected setup `{}`: {}", st, e.text()));
        }
        if let Err(e) = lite.exec(st) {
            return Verdict::Harness(format!("sqlite rejected setup `{}`: {}", st, e));
        }
    }
    obs.nontrivial = true;
    obs.class("raw_regression_input");
    let exp = match lite.query(&r.query) {
        Ok(x) => x,
        Err(e) => return Verdict::Harness(format!("sqlite rejects `{}`: {}", r.query, e)),
    };
    let sig = if r.trigger.is_empty() { "c01.raw.diff".to_string() } else { format!("c01.trigger.{}", r.trigger) };
    match engine::query(&db, &r.query) {
        Err(e) => Verdict::fail(sig, format!("{}\n{}", r.query, e.text())),
        Ok(got) => {
            let ok = if r.ordered { seq_eq(&exp, &got, TOL) } else { multiset_eq(&exp, &got, TOL) };
            if ok {
                Verdict::Pass
            } else {
                Verdict::fail(sig, format!("{}\nexpected (SQLite):\n{}got (vibesql):\n{}", r.query, show_rows(&exp, 30), show_rows(&got, 30)))
            }
        }
    }
}

const TOL: f64 = 1e-9;

fn bag_combine(l: Vec<CRow>, op: SetOp, all: bool, r: Vec<CRow>) -> Vec<CRow> {
    let same = |a: &CRow, b: &CRow| vcore::val::rows_same(a, b, 0.0);
    let dedup = |v: Vec<CRow>| {
        let mut out: Vec<CRow> = Vec::new();
        for x in v {
            if !out.iter().any(|y| same(y, &x)) {
                out.push(x);
            }
        }
        out
    };
    match (op, all) {
        (SetOp::Union, true) => {
            let mut v = l;
            v.extend(r);
            v
        }
        (SetOp::Union, false) => {
            let mut v = l;
            v.extend(r);
            dedup(v)
        }
        (SetOp::Intersect, all) => {
            let mut used = vec![false; r.len()];
            let mut out = Vec::new();
            for x in l {
                if let Some(j) = (0..r.len()).find(|&j| !used[j] && same(&r[j], &x)) {
                    used[j] = true;
                    out.push(x);
                }
            }
            if all {
                out
            } else {
                dedup(out)
            }
        }
        (SetOp::Except, true) => {
            let mut used = vec![false; r.len()];
            let mut out = Vec::new();
            for x in l {
                if let Some(j) = (0..r.len()).find(|&j| !used[j] && same(&r[j], &x)) {
                    used[j] = true;
                } else {
                    out.push(x);
                }
            }
            out
        }
        (SetOp::Except, false) => dedup(l.into_iter().filter(|x| !r.iter().any(|y| same(y, x))).collect()),
    }
}

fn eval_setexpr_model(lite: &Lite, e: &SetExpr) -> Result<Vec<CRow>, String> {
    match e {
        SetExpr::Select(s) => lite.query(&s.render(Dialect::Sqlite)),
        SetExpr::Op { l, op, all, r } => Ok(bag_combine(eval_setexpr_model(lite, l)?, *op, *all, eval_setexpr_model(lite, r)?)),
    }
}

fn needs_model(e: &SetExpr) -> bool {
    match e {
        SetExpr::Select(_) => false,
        SetExpr::Op { l, op, all, r } => (*all && *op != SetOp::Union) || needs_model(l) || needs_model(r),
    }
}

/// ORDER BY (positions) + LIMIT/OFFSET applied by the harness, NULLs last in both directions.
fn order_slice(mut rows: Vec<CRow>, q: &Query) -> Vec<CRow> {
    if !q.order_by.is_empty() {
        rows.sort_by(|a, b| {
            for (k, desc) in &q.order_by {
                let OrderKey::Pos(p) = k else { continue };
                let (x, y) = (&a[*p - 1], &b[*p - 1]);
                let c = match (matches!(x, CV::Null), matches!(y, CV::Null)) {
                    (true, true) => std::cmp::Ordering::Equal,
                    (true, false) => std::cmp::Ordering::Greater,
                    (false, true) => std::cmp::Ordering::Less,
                    _ => {
                        let c = x.sort_cmp(y);
                        if *desc {
                            c.reverse()
                        } else {
                            c
                        }
                    }
                };
                if c != std::cmp::Ordering::Equal {
                    return c;
                }
            }
            std::cmp::Ordering::Equal
        });
    }
    let off = q.offset.unwrap_or(0) as usize;
    let rows: Vec<CRow> = rows.into_iter().skip(off).collect();
    match q.limit {
        Some(l) => rows.into_iter().take(l as usize).collect(),
        None => rows,
    }
}

/// Known-trigger classification: which structural trigger of a known root cause is present.
/// Each trigger names a region of the grammar where a recorded defect lives (known_findings.json);
/// generators avoid these regions in 80% of the budget (`avoid_known`).
pub fn triggers(q: &Query) -> Vec<&'static str> {
    let mut v: Vec<&'static str> = Vec::new();
    fn pred_trig(e: &Expr, v: &mut Vec<&'static str>) {
        e.walk(&mut |x| match x {
            Expr::InSub { neg: true, .. } => v.push("not_in_subquery"),
            Expr::InSub { neg: false, .. } => v.push("in_subquery"),
            Expr::Exists { .. } => v.push("exists_subquery"),
            _ => {}
        })
    }
    fn from_trig(f: &FromItem, v: &mut Vec<&'static str>) {
        if let FromItem::Join { l, kind, r, on } = f {
            if let Some(o) = on {
                pred_trig(o, v);
            }
            from_trig(l, v);
            from_trig(r, v);
        }
    }
    fn tables_of(f: &FromItem, out: &mut Vec<String>) {
        match f {
            FromItem::Table { name, .. } => out.push(name.clone()),
            FromItem::Derived { q, .. } => {
                if let SetExpr::Select(s) = &q.body {
                    for f in &s.from {
                        tables_of(f, out);
                    }
                }
            }
            FromItem::Join { l, r, .. } => {
                tables_of(l, out);
                tables_of(r, out);
            }
        }
    }
    fn sel_trig(s: &Select, v: &mut Vec<&'static str>) {
        for (e, _) in &s.items {
            pred_trig(e, v);
        }
        if let Some(w) = &s.where_ {
            pred_trig(w, v);
            let mut ts = Vec::new();
            for f in &s.from {
                tables_of(f, &mut ts);
            }
            let n = ts.len();
            ts.sort();
            ts.dedup();
            // (trigger self_join_where retired: repaired in /repo, 2dfbe02d)
            let _ = (ts.len(), n);
        }
        if let Some(h) = &s.having {
            pred_trig(h, v);
        }
        for f in &s.from {
            from_trig(f, v);
        }
    }
    fn walk(e: &SetExpr, v: &mut Vec<&'static str>) {
        match e {
            SetExpr::Select(s) => sel_trig(s, v),
            SetExpr::Op { l, r, .. } => {
                walk(l, v);
                walk(r, v);
            }
        }
    }
    walk(&q.body, &mut v);
    // (trigger setop_order_limit retired: repaired in /repo, c0c70299)
    v.sort();
    v.dedup();
    v
}

impl Check for C01 {
    type Case = Case;
    fn id(&self) -> &'static str {
        "C01"
    }
    fn rule(&self) -> String {
        "1-3 tables x 2-4 INTEGER/VARCHAR columns x 0-12 rows (NULL densities 0/.2/.6/1, duplicates, empty tables), one SELECT from the typed grammar \
         (3VL predicates, + - *, CASE/COALESCE, comma/INNER/LEFT/RIGHT/FULL/CROSS joins, derived tables, aggregates [DISTINCT], GROUP BY/HAVING, DISTINCT, \
         UNION/INTERSECT/EXCEPT [ALL], scalar/IN/EXISTS subqueries, total ORDER BY + LIMIT/OFFSET). Oracle: bundled SQLite (INTERSECT/EXCEPT ALL via a bag \
         model self-validated against SQLite on the distinct forms). Non-trivial = at least one engine returned a row and the query has >= 2 of \
         {join, null_expr, aggregate, subquery, set_op, distinct, order_by, limit}. Distinct = hash of (world, query)."
            .into()
    }
    fn assumptions(&self) -> Vec<String> {
        vec![
            "SQLite 3.46 (rusqlite bundled) is the reference; ORDER BY is rendered with NULLS LAST for SQLite because vibesql documents NULLs-last in both directions".into(),
            "floats (AVG) compared with 1e-9 relative tolerance; booleans compared as 0/1".into(),
            "sequence compared only when ORDER BY covers every output column".into(),
        ]
    }
    fn cases(&self, tier: Tier) -> u64 {
        match tier {
            Tier::Quick => 40_000,
            Tier::Thorough => 1_500_000,
        }
    }
    fn tape_len(&self, _t: Tier) -> usize {
        600
    }
    fn build(&self, t: &mut Tape, cfg: &GenCfg) -> Case {
        let world = gen_world(t, &WorldCfg::default());
        let mut eo = ExprOpts { subqueries: true, pred_subqueries: true, ..Default::default() };
        let mut qo = QueryOpts::default();
        let mut excluded = 0;
        if cfg.avoid_known {
            // stay out of the regions of recorded defects (see `triggers`) so the search goes on behind them
            if ["c01.trigger.in_subquery", "c01.trigger.not_in_subquery", "c01.trigger.exists_subquery"].iter().any(|s| cfg.avoiding(s)) {
                eo.pred_subqueries = false;
                excluded += 1;
            }
            if cfg.avoiding("c01.trigger.self_join_where") {
                qo.self_join = false;
                excluded += 1;
            }
            if cfg.avoiding("c01.trigger.setop_order_limit") {
                qo.order_on_setop = false;
                excluded += 1;
            }
        }
        if let Ok(spec) = std::env::var("VERIF_C01_OPTS") {
            // dev aid: feature switches, e.g. "core,+joins,+outer"
            let on = |k: &str| spec.split(',').any(|x| x == k);
            eo.subqueries = on("subq");
            eo.pred_subqueries = on("subq");
            eo.case = on("case");
            eo.simple_preds = on("simple");
            qo = QueryOpts {
                joins: on("joins"),
                outer_joins: on("outer"),
                right_full: on("rightfull"),
                aggregates: on("agg"),
                group_by: on("group"),
                distinct: on("distinct"),
                set_ops: on("setops"),
                set_all_variants: on("setall"),
                order_limit: on("order"),
                derived: on("derived"),
                cte: false,
                expr_depth: 3,
                agg_distinct: on("aggdistinct"),
                order_on_agg: true,
                order_on_setop: true,
                self_join: on("selfjoin"),
            };
        }
        let g = Gen::new(&world, eo);
        let (query, feats, _tys) = g.gen_query(t, &qo);
        Case { world, query, feats: feats.into_iter().map(|s| s.to_string()).collect(), columnar_off: false, excluded, raw: None }
    }
    fn render(&self, c: &Case) -> String {
        if let Some(r) = &c.raw {
            return format!("{};\n{}", r.setup.join(";\n"), r.query);
        }
        let mut s = c.world.setup_sql(Dialect::Vibe).join(";\n");
        s.push_str(";\n");
        s.push_str(&c.query.render(Dialect::Vibe));
        if c.columnar_off {
            s.push_str("\n-- (columnar gate forced off by verif hook)");
        }
        s
    }
    fn run(&self, case: &Case, obs: &mut Obs) -> Verdict {
        if let Some(r) = &case.raw {
            return run_raw(r, obs);
        }
        let mut db = vibesql_storage::Database::new();
        for st in case.world.setup_sql(Dialect::Vibe) {
            if let Err(e) = engine::exec(&mut db, &st) {
                return Verdict::Harness(format!("vibesql rejected setup statement `{}`: {}", st, e.text()));
            }
        }
        let lite = match Lite::new() {
            Ok(l) => l,
            Err(e) => return Verdict::Harness(e),
        };
        for st in case.world.setup_sql(Dialect::Sqlite) {
            if let Err(e) = lite.exec(&st) {
                return Verdict::Harness(format!("sqlite rejected setup statement `{}`: {}", st, e));
            }
        }
        let q = &case.query;
        let vsql = q.render(Dialect::Vibe);
        let ssql = q.render(Dialect::Sqlite);
        for f in &case.feats {
            obs.class(f);
        }
        obs.excluded = case.excluded as u64 + case.columnar_off as u64;
        let trig = triggers(q);
        // reference result
        let model = needs_model(&q.body);
        let reference: Result<Vec<CRow>, String> = if model {
            obs.class("bag_model");
            eval_setexpr_model(&lite, &q.body).map(|r| order_slice(r, q))
        } else {
            let r = lite.query(&ssql);
            // self-validation of the bag model on set operations SQLite can do itself
            if let (Ok(rows), true) = (&r, q.body.is_setop()) {
                if let Ok(m) = eval_setexpr_model(&lite, &q.body) {
                    let m = order_slice(m, q);
                    let ok = if q.limit.is_some() || q.offset.is_some() || !q.order_by.is_empty() { seq_eq(rows, &m, TOL) } else { multiset_eq(rows, &m, TOL) };
                    if !ok {
                        return Verdict::Harness(format!("bag model disagrees with SQLite on `{}`:\nsqlite:\n{}model:\n{}", ssql, show_rows(rows, 20), show_rows(&m, 20)));
                    }
                }
            }
            r
        };
        vibesql_executor::verif_hooks::set_columnar_off(case.columnar_off);
        let taken0 = vibesql_executor::verif_hooks::columnar_taken();
        let got = engine::query(&db, &vsql);
        vibesql_executor::verif_hooks::set_columnar_off(false);
        let mut trig = trig;
        if vibesql_executor::verif_hooks::columnar_taken() > taken0 {
            obs.class("columnar_path_taken");
            // the columnar path's SUM over integers is a DOUBLE (pinned by unit tests): next to
            // integers it sorts, de-duplicates and intersects as a different value
            trig.push(if vsql.contains("SUM(") { "columnar_int_sum" } else { "columnar_path" });
        }
        let (exp, got) = match (reference, got) {
            (Err(_), Err(_)) => {
                obs.class("both_error");
                return Verdict::Pass;
            }
            (Err(e), Ok(_)) => {
                obs.class("sqlite_rejects");
                return Verdict::Harness(format!("SQLite rejects a generated query vibesql accepts: `{}`: {}", ssql, e));
            }
            (Ok(_), Err(e)) => {
                let sig = if trig.is_empty() { format!("c01.vibe_error.{}", e.kind()) } else { format!("c01.trigger.{}", trig[0]) };
                return Verdict::fail(sig, format!("vibesql fails on a query SQLite answers:\n{}\n{}", vsql, e.text()));
            }
            (Ok(a), Ok(b)) => (a, b),
        };
        let ordered = !q.order_by.is_empty();
        let ok = if ordered { seq_eq(&exp, &got, TOL) } else { multiset_eq(&exp, &got, TOL) };
        let nfeat = ["join", "null_expr", "aggregate", "subquery", "set_op", "distinct", "order_by", "limit"].iter().filter(|f| case.feats.iter().any(|x| x == *f)).count();
        obs.nontrivial = (!exp.is_empty() || !got.is_empty()) && nfeat >= 2;
        if exp.is_empty() {
            obs.class("empty_result");
        }
        if ok {
            return Verdict::Pass;
        }
        let shape = if exp.len() != got.len() {
            if got.len() > exp.len() {
                "extra_rows"
            } else {
                "missing_rows"
            }
        } else if ordered && multiset_eq(&exp, &got, TOL) {
            "order"
        } else {
            "values"
        };
        let sig = if trig.is_empty() {
            let mut f: Vec<&str> = case.feats.iter().map(|s| s.as_str()).collect();
            f.sort();
            f.dedup();
            format!("c01.diff.{}.[{}]", shape, f.join(","))
        } else {
            // one signature per recorded root cause: the first trigger present (sorted)
            format!("c01.trigger.{}", trig[0])
        };
        Verdict::fail(
            sig,
            format!("{}\nexpected (SQLite{}):\n{}got (vibesql):\n{}", vsql, if model { " + bag model" } else { "" }, show_rows(&exp, 30), show_rows(&got, 30)),
        )
    }
}
