//! vcheck <ID> quick|thorough|--replay <file>   — one sub-command per property.
//! vcheck --worker <ID>                         — child mode for isolated checks.

use vcore::runner::{parse_args, run_check};

mod agg;
mod c01;
mod c02;
mod c04;
mod c03;
mod c05;
mod c06;
mod c07;
mod c08;
mod c09_15;
mod dml;
mod hist;
mod c16;
mod c21;
mod txn;
mod c32;
mod c33;
mod c34;

/// Expands to a `match` over property ids calling the generic function `$f`
/// with the check value followed by the extra arguments.
macro_rules! dispatch {
    ($id:expr, $f:ident ( $($extra:expr),* )) => {
        match $id {
            "C01" => $f(c01::C01, $($extra),*),
            "C02" => $f(c02::C02, $($extra),*),
            "C03" => $f(c03::C03, $($extra),*),
            "C04" => $f(c04::C04, $($extra),*),
            "C05" => $f(c05::C05, $($extra),*),
            "C06" => $f(c06::C06, $($extra),*),
            "C07" => $f(c07::C07, $($extra),*),
            "C08" => $f(c08::C08, $($extra),*),
            "C09" => $f(c09_15::C09, $($extra),*),
            "C10" => $f(c09_15::C10, $($extra),*),
            "C11" => $f(c09_15::C11, $($extra),*),
            "C12" => $f(c09_15::C12, $($extra),*),
            "C13" => $f(txn::C13, $($extra),*),
            "C14" => $f(txn::C14, $($extra),*),
            "C15" => $f(c09_15::C15, $($extra),*),
            "C32" => $f(c32::C32, $($extra),*),
            "C33" => $f(c33::C33, $($extra),*),
            "C34" => $f(c34::C34, $($extra),*),
            "C16" => $f(c16::C16, $($extra),*),
            "C21" => $f(c21::C21, $($extra),*),
            other => {
                eprintln!("unknown property id {}", other);
                2
            }
        }
    };
}

fn worker<C: vcore::Check>(c: C) -> i32 {
    let root = std::env::var("VERIF_ROOT").unwrap_or_else(|_| "/verif".into());
    if std::env::var("VERIF_STRICT").is_err() {
        let k = vcore::kf::KnownFindings::load(&std::path::Path::new(&root).join("known_findings.json"), c.id());
        vcore::kf::set_open_sigs(k.open_signatures());
    }
    vcore::isolate::worker_main(c)
}

fn run<C: vcore::Check>(c: C, args: vcore::Args) -> i32 {
    run_check(c, args)
}

fn main() {
    let argv: Vec<String> = std::env::args().skip(1).collect();
    if argv.first().map(|s| s == "sql").unwrap_or(false) {
        // dev helper: run ';'-separated statements from stdin against a fresh database
        let mut txt = String::new();
        std::io::Read::read_to_string(&mut std::io::stdin(), &mut txt).unwrap();
        let mut db = if std::env::var("VERIF_SQL_SPILL").is_ok() {
            // dev aid for C16: memory budget 0 + SpillToDisk in a scratch directory
            let mut c = vibesql_storage::DatabaseConfig::server_default();
            c.memory_budget = 0;
            c.spill_policy = vibesql_storage::database::SpillPolicy::SpillToDisk;
            let dir = std::path::PathBuf::from(format!("/verif/target/tmp/sqlspill-{}", std::process::id()));
            std::fs::create_dir_all(&dir).unwrap();
            vibesql_storage::Database::with_path_and_config(dir, c)
        } else {
            vibesql_storage::Database::new()
        };
        vcore::runner::install_panic_hook();
        for stmt in txt.split(";\n") {
            let stmt = stmt.trim();
            if stmt.is_empty() {
                continue;
            }
            println!("> {}", stmt);
            match vcore::runner::catch(|| vcore::engine::exec(&mut db, stmt)) {
                Ok(Ok(vcore::engine::Out::Rows(rows))) => {
                    for r in rows {
                        println!("  {:?}", r.values);
                    }
                }
                Ok(Ok(o)) => println!("  {:?}", o),
                Ok(Err(e)) => println!("  ERR {}", e.text()),
                Err(p) => println!("  PANIC {}", p),
            }
        }
        return;
    }
    if argv.first().map(|s| s == "--c04-child").unwrap_or(false) {
        std::process::exit(c04::child_main());
    }
    let code = if argv.first().map(|s| s == "--worker").unwrap_or(false) {
        let id = argv.get(1).cloned().unwrap_or_default();
        dispatch!(id.as_str(), worker())
    } else {
        match parse_args(&argv) {
            Err(e) => {
                eprintln!("{}", e);
                2
            }
            Ok(args) => {
                let id = args.id.clone();
                dispatch!(id.as_str(), run(args))
            }
        }
    };
    std::process::exit(code);
}
