//! C32 — views and CTEs behave as their defining query (metamorphic): a query over a view /
//! CTE vs the same query with the reference replaced by the defining SELECT as a derived table,
//! re-checked after changes to the base tables.

use serde::{Deserialize, Serialize};
use vcore::engine;
use vcore::sql::gen::{gen_cell, gen_world, ExprOpts, Gen, QueryOpts, World, WorldCfg};
use vcore::sql::ir::*;
use vcore::val::{CRow, V};
use vcore::{Check, GenCfg, Obs, Tape, Tier, Verdict};
use vibesql_storage::Database;

#[derive(Clone, Debug, Serialize, Deserialize)]
pub enum Change {
    Insert { table: usize, rows: Vec<Vec<V>> },
    DeleteAll { table: usize },
    DeleteWhere { table: usize, pred: Expr },
    UpdateCol { table: usize, col: usize, val: V },
}

#[derive(Clone, Debug, Serialize, Deserialize)]
pub struct C32Case {
    pub world: World,
    /// defining SELECT (items aliased c0..)
    pub def: Select,
    pub def_tys: Vec<Ty>,
    /// explicit column list of the view / CTE (renames c0.. to these)
    pub col_list: Option<Vec<String>>,
    /// outer query over table-like `v0` (and possibly base tables)
    pub outer: Query,
    pub def_feats: Vec<String>,
    pub outer_feats: Vec<String>,
    pub changes: Vec<Change>,
    /// base tables are loaded after CREATE VIEW (the view is created over empty tables)
    pub create_before_load: bool,
    /// keep the executor off its columnar aggregate path (hook), see known finding c32.*.columnar_path
    #[serde(default)]
    pub columnar_off: bool,
    #[serde(default)]
    pub scenario: Option<vcore::scenario::Scenario>,
}

pub struct C32;

fn colty_of(t: Ty) -> ColTy {
    match t {
        Ty::Int => ColTy::Int,
        Ty::Str => ColTy::Varchar(20),
        Ty::Flt => ColTy::Double,
        Ty::Bool => ColTy::Boolean,
    }
}

fn subst_from(f: &FromItem, def: &Query) -> FromItem {
    match f {
        FromItem::Table { name, alias } if name == "v0" => FromItem::Derived { q: Box::new(def.clone()), alias: alias.clone().unwrap_or_else(|| "v0".into()) },
        FromItem::Table { .. } => f.clone(),
        FromItem::Derived { q, alias } => FromItem::Derived { q: Box::new(subst_query(q, def)), alias: alias.clone() },
        FromItem::Join { l, kind, r, on } => FromItem::Join { l: Box::new(subst_from(l, def)), kind: *kind, r: Box::new(subst_from(r, def)), on: on.clone() },
    }
}
fn subst_set(s: &SetExpr, def: &Query) -> SetExpr {
    match s {
        SetExpr::Select(sel) => {
            let mut n = sel.clone();
            n.from = sel.from.iter().map(|f| subst_from(f, def)).collect();
            SetExpr::Select(n)
        }
        SetExpr::Op { l, op, all, r } => SetExpr::Op { l: Box::new(subst_set(l, def)), op: *op, all: *all, r: Box::new(subst_set(r, def)) },
    }
}
fn subst_query(q: &Query, def: &Query) -> Query {
    let mut n = q.clone();
    n.body = subst_set(&q.body, def);
    n
}

/// qualify every reference to one of the view's columns with the alias `vx`
fn requal_expr(e: &mut Expr, names: &[String]) {
    match e {
        Expr::Col { qual, name } => {
            if names.iter().any(|n| n == name) && qual.as_deref().map(|q| q == "v0").unwrap_or(true) {
                *qual = Some("vx".into());
            }
        }
        Expr::Bin(a, _, b) => {
            requal_expr(a, names);
            requal_expr(b, names);
        }
        Expr::Not(a) | Expr::Neg(a) | Expr::IsNull(a, _) | Expr::IsTrue(a) => requal_expr(a, names),
        Expr::Between { e, lo, hi, .. } => {
            requal_expr(e, names);
            requal_expr(lo, names);
            requal_expr(hi, names);
        }
        Expr::InList { e, list, .. } => {
            requal_expr(e, names);
            for x in list {
                requal_expr(x, names);
            }
        }
        Expr::Like { e, .. } => requal_expr(e, names),
        Expr::Case { whens, els } => {
            for (c, v) in whens {
                requal_expr(c, names);
                requal_expr(v, names);
            }
            if let Some(x) = els {
                requal_expr(x, names);
            }
        }
        Expr::Coalesce(v) | Expr::Func { args: v, .. } => {
            for x in v {
                requal_expr(x, names);
            }
        }
        Expr::Agg { arg, .. } => {
            if let Some(a) = arg {
                requal_expr(a, names);
            }
        }
        Expr::Lit(_) | Expr::ScalarSub(_) | Expr::InSub { .. } | Expr::Exists { .. } | Expr::Raw(_) => {}
    }
}
fn alias_from(f: &mut FromItem, names: &[String]) {
    match f {
        FromItem::Table { name, alias } if name == "v0" && alias.is_none() => *alias = Some("vx".into()),
        FromItem::Table { .. } | FromItem::Derived { .. } => {}
        FromItem::Join { l, r, on, .. } => {
            alias_from(l, names);
            alias_from(r, names);
            if let Some(o) = on {
                requal_expr(o, names);
            }
        }
    }
}
/// `FROM v0` becomes `FROM v0 AS vx` and every reference to its columns `vx.<col>`
fn alias_view(q: &mut Query, names: &[String]) {
    fn set(s: &mut SetExpr, names: &[String]) {
        match s {
            SetExpr::Select(sel) => {
                for f in sel.from.iter_mut() {
                    alias_from(f, names);
                }
                for (e, _) in sel.items.iter_mut() {
                    requal_expr(e, names);
                }
                for e in sel.where_.iter_mut().chain(sel.having.iter_mut()).chain(sel.group_by.iter_mut()) {
                    requal_expr(e, names);
                }
            }
            SetExpr::Op { l, r, .. } => {
                set(l, names);
                set(r, names);
            }
        }
    }
    set(&mut q.body, names);
}

impl C32Case {
    /// the defining query with its output columns named as the view's columns
    fn def_named(&self) -> Query {
        let mut d = self.def.clone();
        if let Some(cl) = &self.col_list {
            for (i, it) in d.items.iter_mut().enumerate() {
                it.1 = Some(cl[i].clone());
            }
        }
        Query::of(d)
    }
    fn def_sql(&self) -> String {
        Query::of(self.def.clone()).render(Dialect::Vibe)
    }
    fn col_list_sql(&self) -> String {
        self.col_list.as_ref().map(|c| format!(" ({})", c.join(", "))).unwrap_or_default()
    }
    fn create_view_sql(&self) -> String {
        format!("CREATE VIEW v0{} AS {}", self.col_list_sql(), self.def_sql())
    }
    fn view_query_sql(&self) -> String {
        self.outer.render(Dialect::Vibe)
    }
    fn cte_query_sql(&self) -> String {
        format!("WITH v0{} AS ({}) {}", self.col_list_sql(), self.def_sql(), self.outer.render(Dialect::Vibe))
    }
    fn inlined_query_sql(&self) -> String {
        subst_query(&self.outer, &self.def_named()).render(Dialect::Vibe)
    }
    fn change_sql(&self, c: &Change) -> String {
        match c {
            Change::Insert { table, rows } => insert_sql(&self.world.tables[*table].name, None, rows, Dialect::Vibe),
            Change::DeleteAll { table } => format!("DELETE FROM {}", self.world.tables[*table].name),
            Change::DeleteWhere { table, pred } => format!("DELETE FROM {} WHERE {}", self.world.tables[*table].name, pred.render(Dialect::Vibe)),
            Change::UpdateCol { table, col, val } => format!("UPDATE {} SET {} = {}", self.world.tables[*table].name, self.world.tables[*table].cols[*col].name, bare_lit(val, Dialect::Vibe)),
        }
    }
}

fn ordered_keys(q: &Query) -> bool {
    !q.order_by.is_empty()
}

fn same(a: &[CRow], b: &[CRow], _ordered: bool) -> bool {
    // ORDER BY keys may tie: the multiset is what both forms must agree on
    vcore::val::multiset_eq(a, b, 1e-9)
}

impl Check for C32 {
    type Case = C32Case;
    fn id(&self) -> &'static str {
        "C32"
    }
    fn rule(&self) -> String {
        "1-3 base tables with generated rows (NULLs, empty tables); a defining SELECT D (1-3 tables with INNER/LEFT/CROSS joins, WHERE, expressions with CASE/COALESCE/arithmetic, DISTINCT, aggregates with or without GROUP BY and HAVING; output columns c0..) optionally with an explicit column list; \
         an outer query Q over v0 (projections, WHERE on the view's columns, joins of v0 with base tables, aggregates / GROUP BY / DISTINCT / set operations / ORDER BY). Three forms are executed: Q after CREATE VIEW v0 AS D, WITH v0 AS (D) Q, and Q with every reference to v0 replaced by (D) AS v0; \
         then 0-3 changes of the base tables (INSERT, DELETE with/without WHERE incl. emptying a table, UPDATE of a column) each followed by the view form vs the inlined form. One third of the cases create the view before the base tables are loaded. \
         Oracle: whenever the inlined form succeeds, the view form and the CTE form succeed and return the same multiset of rows. Non-trivial = the inlined form returned at least one row at some point, or D is empty while the base tables are not (column metadata without a first row). Distinct = hash of the case."
            .into()
    }
    fn assumptions(&self) -> Vec<String> {
        vec![
            "reference = the engine's own derived-table execution of the same text (C01 decides whether that is right); no LIMIT/OFFSET, no RIGHT/FULL joins, no self joins, no subqueries in the outer query".into(),
            "float columns are compared with tolerance 1e-9".into(),
        ]
    }
    fn cases(&self, tier: Tier) -> u64 {
        match tier {
            Tier::Quick => 100_000,
            Tier::Thorough => 2_000_000,
        }
    }
    fn tape_len(&self, _t: Tier) -> usize {
        1200
    }
    fn build(&self, t: &mut Tape, g: &GenCfg) -> C32Case {
        let world = gen_world(t, &WorldCfg { max_rows: 8, ..WorldCfg::default() });
        let avoid = |s: &str| g.avoid_known && g.known_open.iter().any(|k| k.ends_with(s));
        let eo = ExprOpts { subqueries: false, pred_subqueries: false, ..Default::default() };
        let qd = QueryOpts {
            joins: !avoid(".def_join"),
            outer_joins: !avoid(".def_join"),
            right_full: false,
            aggregates: !avoid(".def_aggregate"),
            group_by: !avoid(".def_aggregate") && !avoid(".def_group_by"),
            distinct: !avoid(".def_distinct"),
            set_ops: false,
            set_all_variants: false,
            order_limit: false,
            derived: false,
            cte: false,
            expr_depth: 2,
            agg_distinct: false,
            order_on_agg: false,
            order_on_setop: false,
            self_join: false,
        };
        let gd = Gen::new(&world, eo.clone());
        let d = gd.gen_select(t, &qd, None);
        let col_list = if !avoid(".column_list") && t.chance(1, 4) { Some((0..d.sel.items.len()).map(|i| format!("x{}", i)).collect::<Vec<_>>()) } else { None };
        // a world in which v0 is a table-like object next to the base tables
        let mut w2 = world.clone();
        let vcols: Vec<ColDef> = d.out_tys.iter().enumerate().map(|(i, ty)| ColDef { name: col_list.as_ref().map(|c| c[i].clone()).unwrap_or_else(|| format!("c{}", i)), ty: colty_of(*ty), not_null: false }).collect();
        w2.tables.insert(0, TableDef { name: "v0".into(), cols: vcols, ..Default::default() });
        w2.rows.insert(0, vec![]);
        let qo = QueryOpts {
            joins: !avoid(".outer_join"),
            outer_joins: !avoid(".outer_join"),
            right_full: false,
            aggregates: !avoid(".outer_aggregate"),
            group_by: !avoid(".outer_aggregate"),
            distinct: true,
            set_ops: !avoid(".outer_set_op"),
            set_all_variants: true,
            order_limit: false,
            derived: false,
            cte: false,
            expr_depth: 2,
            agg_distinct: false,
            order_on_agg: false,
            order_on_setop: false,
            self_join: false,
        };
        let go = Gen::new(&w2, eo);
        // the outer query must mention v0: retry a few times, then force a plain SELECT * FROM v0
        let mut outer = None;
        let mut ofeats = Vec::new();
        for _ in 0..6 {
            let (q, f, _) = go.gen_query(t, &qo);
            let txt = q.render(Dialect::Vibe);
            if txt.contains("v0") {
                outer = Some(q);
                ofeats = f.iter().map(|s| s.to_string()).collect();
                break;
            }
        }
        let mut outer = outer.unwrap_or_else(|| Query::of(Select { from: vec![FromItem::table("v0")], ..Default::default() }));
        // one third of the cases reference the view through an alias with qualified columns
        if !avoid(".view_alias") && t.chance(1, 3) {
            let names: Vec<String> = w2.tables[0].cols.iter().map(|c| c.name.clone()).collect();
            alias_view(&mut outer, &names);
            ofeats.push("view_alias".to_string());
        }
        let mut changes = Vec::new();
        for _ in 0..t.range(0, 3) {
            let ti = t.below(world.tables.len());
            let td = &world.tables[ti];
            let c = match t.weighted(&[4, 1, 2, 2]) {
                0 => {
                    let n = t.range(1, 3) as usize;
                    let rows = (0..n).map(|_| td.cols.iter().map(|c| gen_cell(t, &c.ty, if c.not_null { 0 } else { 6 })).collect()).collect();
                    Change::Insert { table: ti, rows }
                }
                1 => Change::DeleteAll { table: ti },
                2 => {
                    let sc = gd.table_scope(ti, None);
                    Change::DeleteWhere { table: ti, pred: gd.pred(t, &sc, 1) }
                }
                _ => {
                    let ci = t.below(td.cols.len());
                    Change::UpdateCol { table: ti, col: ci, val: gen_cell(t, &td.cols[ci].ty, if td.cols[ci].not_null { 0 } else { 6 }) }
                }
            };
            changes.push(c);
        }
        let _ = ordered_keys(&outer);
        C32Case { world, def: d.sel, def_tys: d.out_tys, col_list, outer, def_feats: d.features.iter().map(|s| s.to_string()).collect(), outer_feats: ofeats, changes, create_before_load: t.chance(1, 3), columnar_off: avoid(".columnar_path"), scenario: None }
    }
    fn render(&self, c: &C32Case) -> String {
        if let Some(sc) = &c.scenario {
            return sc.steps.iter().map(|s| s.sql.clone()).collect::<Vec<_>>().join(";\n");
        }
        let mut v = c.world.setup_sql(Dialect::Vibe);
        v.push(c.create_view_sql());
        v.push(format!("-- view form:\n{}", c.view_query_sql()));
        v.push(format!("-- cte form:\n{}", c.cte_query_sql()));
        v.push(format!("-- inlined form:\n{}", c.inlined_query_sql()));
        for ch in &c.changes {
            v.push(c.change_sql(ch));
        }
        v.join(";\n")
    }
    fn run(&self, case: &C32Case, obs: &mut Obs) -> Verdict {
        if let Some(sc) = &case.scenario {
            obs.nontrivial = true;
            obs.class("scenario_regression_input");
            return match vcore::scenario::run(sc) {
                Ok(()) => Verdict::Pass,
                Err(d) => Verdict::fail(format!("c32.scenario.{}", sc.name), d),
            };
        }
        struct HookGuard;
        impl Drop for HookGuard {
            fn drop(&mut self) {
                vibesql_executor::verif_hooks::set_columnar_off(false);
            }
        }
        // the same setting for every form and for the reference
        vibesql_executor::verif_hooks::set_columnar_off(case.columnar_off);
        let _hook = HookGuard;
        let mut db = Database::new();
        let setup = case.world.setup_sql(Dialect::Vibe);
        let (ddl, load): (Vec<String>, Vec<String>) = setup.into_iter().partition(|s| s.starts_with("CREATE"));
        let mut log: Vec<String> = Vec::new();
        let mut run_all = |db: &mut Database, stmts: &[String], log: &mut Vec<String>| -> Result<(), String> {
            for s in stmts {
                log.push(s.clone());
                engine::exec(db, s).map_err(|e| format!("setup `{}` failed: {}", s, e.text()))?;
            }
            Ok(())
        };
        if let Err(e) = run_all(&mut db, &ddl, &mut log) {
            return Verdict::Harness(e);
        }
        if !case.create_before_load {
            if let Err(e) = run_all(&mut db, &load, &mut log) {
                return Verdict::Harness(e);
            }
        }
        // features for signatures
        let mut trig: Vec<&str> = Vec::new();
        if case.outer_feats.iter().any(|f| f == "view_alias") {
            trig.push("view_alias");
        }
        if case.col_list.is_some() {
            trig.push("column_list");
        }
        for (f, name) in [("group_by", "def_group_by"), ("aggregate", "def_aggregate"), ("distinct", "def_distinct")] {
            if case.def_feats.iter().any(|x| x == f) {
                trig.push(name);
            }
        }
        if case.def.from.iter().any(|f| matches!(f, FromItem::Join { .. })) || case.def.from.len() > 1 {
            trig.push("def_join");
        }
        for (f, name) in [("set_op", "outer_set_op"), ("aggregate", "outer_aggregate")] {
            if case.outer_feats.iter().any(|x| x == f) {
                trig.push(name);
            }
        }
        let otxt = case.outer.render(Dialect::Vibe);
        if otxt.contains(" JOIN ") {
            trig.push("outer_join");
        }
        if otxt.contains(" WHERE ") {
            trig.push("outer_where");
        }
        let trigger = trig.first().copied().unwrap_or("plain");
        for f in &trig {
            obs.class(&format!("feature:{}", f));
        }
        let cv = case.create_view_sql();
        log.push(cv.clone());
        if let Err(e) = engine::exec(&mut db, &cv) {
            // does the defining query run at all?
            if engine::query(&db, &case.def_sql()).is_err() {
                obs.class("defining_query_rejected");
                return Verdict::Pass;
            }
            let sig = format!("c32.create_view_rejected.{}", trigger);
            if vcore::kf::is_open_global(&sig) {
                obs.known_hits.push(sig);
                return Verdict::Pass;
            }
            return Verdict::fail(sig, format!("`{}` failed although the defining query runs: {}\n--- history ---\n{}", cv, e.text(), log.join(";\n")));
        }
        if case.create_before_load {
            obs.class("view_created_before_load");
            if let Err(e) = run_all(&mut db, &load, &mut log) {
                return Verdict::Harness(e);
            }
        }
        let (vq, cq, iq) = (case.view_query_sql(), case.cte_query_sql(), case.inlined_query_sql());
        let mut nontrivial = false;
        let steps = case.changes.len() + 1;
        for step in 0..steps {
            if step > 0 {
                let s = case.change_sql(&case.changes[step - 1]);
                log.push(s.clone());
                if engine::exec(&mut db, &s).is_err() {
                    obs.class("change_rejected");
                    continue;
                }
            }
            obs.sub_evals += 1;
            let taken_ref = vibesql_executor::verif_hooks::columnar_taken();
            let reference = match engine::query(&db, &iq) {
                Ok(r) => r,
                Err(_) => {
                    obs.class("inlined_form_rejected");
                    continue;
                }
            };
            let ref_columnar = vibesql_executor::verif_hooks::columnar_taken() > taken_ref;
            let def_rows = engine::query(&db, &case.def_sql()).map(|r| r.len()).unwrap_or(0);
            let base_rows: usize = case.world.tables.iter().map(|t| db.get_table(&t.name).map(|x| x.row_count()).unwrap_or(0)).sum();
            let empty_view = def_rows == 0;
            if !reference.is_empty() || (empty_view && base_rows > 0) {
                nontrivial = true;
            }
            if empty_view {
                obs.class("empty_view");
            }
            let when = if step == 0 { "initial" } else { "after_change" };
            let mut forms: Vec<(&str, &String)> = vec![("view", &vq)];
            if step == 0 {
                forms.push(("cte", &cq));
            }
            for (form, sql) in forms {
                let taken0 = vibesql_executor::verif_hooks::columnar_taken();
                let r = engine::query(&db, sql);
                let columnar = ref_columnar || vibesql_executor::verif_hooks::columnar_taken() > taken0;
                if columnar {
                    obs.class("columnar_path_taken");
                }
                let trig_full = if empty_view { format!("empty.{}", trigger) } else { trigger.to_string() };
                let bad = match &r {
                    Ok(rows) if columnar && !same(rows, &reference, false) => Some((
                        format!("c32.{}.mismatch.columnar_path", form),
                        format!("(the {} form or the reference was answered by the columnar aggregate path)\n{} form:\n{}inlined form:\n{}", form, form, vcore::val::show_rows(rows, 15), vcore::val::show_rows(&reference, 15)),
                    )),
                    Err(e) => Some((format!("c32.{}.error.{}.{}", form, when, trig_full), format!("the inlined form runs ({} rows) but the {} form fails: {}", reference.len(), form, e.text()))),
                    Ok(rows) if !same(rows, &reference, false) => Some((
                        format!("c32.{}.mismatch.{}.{}", form, when, trig_full),
                        format!("{} form:\n{}inlined form:\n{}", form, vcore::val::show_rows(rows, 15), vcore::val::show_rows(&reference, 15)),
                    )),
                    _ => None,
                };
                if let Some((sig, d)) = bad {
                    if vcore::kf::is_open_global(&sig) {
                        if !obs.known_hits.contains(&sig) {
                            obs.known_hits.push(sig);
                        }
                        continue;
                    }
                    return Verdict::fail(sig, format!("{}\n{} form:   {}\ninlined form: {}\n--- history ---\n{}", d, form, sql, iq, log.join(";\n")));
                }
            }
        }
        obs.nontrivial = nontrivial;
        Verdict::Pass
    }
}
