//! C13 (BEGIN .. ROLLBACK / COMMIT) and C14 (savepoints): history invariants over the engine's own
//! observable state plus a twin database that never ran the transaction (C13).

use crate::dml::*;
use serde::{Deserialize, Serialize};
use vcore::engine::{self, DbObs};
use vcore::val::{CRow, V};
use vcore::{Check, GenCfg, Obs, Tape, Tier, Verdict};
use vibesql_storage::Database;

// ---------------------------------------------------------------------------------------------
// shared pieces

#[derive(Clone, Debug, Serialize, Deserialize)]
pub enum TOp {
    S(Stmt),
    /// DDL that is not part of dml::Stmt, as SQL text (kind label, text)
    Raw(String, String),
}

fn op_sql(o: &TOp, specs: &[TSpec]) -> String {
    match o {
        TOp::S(s) => stmt_sql(s, specs),
        TOp::Raw(_, s) => s.clone(),
    }
}

fn op_kind(o: &TOp) -> String {
    match o {
        TOp::S(Stmt::Insert { .. }) => "insert".into(),
        TOp::S(Stmt::InsertSelect { .. }) => "insert_select".into(),
        TOp::S(Stmt::Update { .. }) => "update".into(),
        TOp::S(Stmt::Delete { .. }) => "delete".into(),
        TOp::S(Stmt::Truncate { .. }) => "truncate".into(),
        TOp::S(Stmt::CreateIndex { .. }) => "create_index".into(),
        TOp::S(Stmt::DropIndex { .. }) => "drop_index".into(),
        TOp::S(_) => "txn".into(),
        TOp::Raw(k, _) => k.clone(),
    }
}

fn exec(db: &mut Database, sql: &str) -> Result<engine::Out, String> {
    match vcore::runner::catch(|| engine::exec(db, sql)) {
        Ok(Ok(o)) => Ok(o),
        Ok(Err(e)) => Err(e.text()),
        Err(p) => Err(format!("PANIC {}", p)),
    }
}

/// value pool per (table, column) collected from the INSERT statements of the case
fn probe_values(specs: &[TSpec], ops: &[&TOp]) -> Vec<Vec<Vec<V>>> {
    let mut pool: Vec<Vec<Vec<V>>> = specs.iter().map(|s| vec![Vec::new(); s.cols.len()]).collect();
    for o in ops {
        if let TOp::S(Stmt::Insert { t, rows }) = o {
            for r in rows {
                for (c, v) in r.iter().enumerate() {
                    if *v != V::Null && !pool[*t][c].contains(v) && pool[*t][c].len() < 2 {
                        pool[*t][c].push(v.clone());
                    }
                }
            }
        }
    }
    pool
}

/// Battery of queries (many of them index-driven when the column carries an index)
fn probe_sqls(specs: &[TSpec], pool: &[Vec<Vec<V>>]) -> Vec<(String, Option<usize>)> {
    let mut v = Vec::new();
    for (ti, s) in specs.iter().enumerate() {
        v.push((format!("SELECT * FROM {}", s.name), None));
        for (c, (cn, _)) in s.cols.iter().enumerate() {
            let indexed = s.pk.first() == Some(&c) || s.uniques.iter().any(|u| u[0] == c) || s.indexes.iter().any(|(_, cs, _)| cs[0] == c);
            if !indexed {
                continue;
            }
            v.push((format!("SELECT * FROM {} ORDER BY {}", s.name, cn), Some(c)));
            for (i, x) in pool[ti][c].iter().enumerate() {
                v.push((format!("SELECT * FROM {} WHERE {} = {}", s.name, cn, lit(x)), None));
                if i == 0 {
                    v.push((format!("SELECT * FROM {} WHERE {} >= {}", s.name, cn, lit(x)), None));
                } else {
                    v.push((format!("SELECT * FROM {} WHERE {} < {}", s.name, cn, lit(x)), None));
                }
            }
            if pool[ti][c].len() >= 2 {
                v.push((format!("SELECT * FROM {} WHERE {} IN ({}, {})", s.name, cn, lit(&pool[ti][c][0]), lit(&pool[ti][c][1])), None));
            }
        }
    }
    v
}

type ProbeRes = Vec<Result<Vec<CRow>, String>>;

fn run_probes(db: &Database, probes: &[(String, Option<usize>)]) -> ProbeRes {
    probes.iter().map(|(q, _)| engine::query(db, q).map_err(|e| vcore::runner::truncate(&e.text(), 80))).collect()
}

fn diff_probes(probes: &[(String, Option<usize>)], a: &ProbeRes, b: &ProbeRes, la: &str, lb: &str) -> Option<String> {
    for (i, (q, key)) in probes.iter().enumerate() {
        let same = match (&a[i], &b[i]) {
            (Ok(x), Ok(y)) => {
                vcore::val::multiset_eq(x, y, 0.0)
                    && match key {
                        Some(c) => {
                            let kx: Vec<_> = x.iter().map(|r| vec![r[*c].clone()]).collect();
                            let ky: Vec<_> = y.iter().map(|r| vec![r[*c].clone()]).collect();
                            vcore::val::seq_eq(&kx, &ky, 0.0)
                        }
                        None => true,
                    }
            }
            (Err(_), Err(_)) => true,
            _ => false,
        };
        if !same {
            let show = |r: &Result<Vec<CRow>, String>| match r {
                Ok(rows) => vcore::val::show_rows(rows, 12),
                Err(e) => format!("  error: {}\n", e),
            };
            return Some(format!("query `{}`\n{}:\n{}{}:\n{}", q, la, show(&a[i]), lb, show(&b[i])));
        }
    }
    None
}

fn rows_of(db: &Database, specs: &[TSpec]) -> Vec<Option<Vec<CRow>>> {
    specs.iter().map(|s| engine_rows(db, s)).collect()
}

fn rows_eq(a: &[Option<Vec<CRow>>], b: &[Option<Vec<CRow>>]) -> bool {
    a.len() == b.len()
        && a.iter().zip(b).all(|(x, y)| match (x, y) {
            (Some(x), Some(y)) => vcore::val::multiset_eq(x, y, 0.0),
            (None, None) => true,
            _ => false,
        })
}

fn show_tables(specs: &[TSpec], a: &[Option<Vec<CRow>>]) -> String {
    let mut s = String::new();
    for (i, t) in a.iter().enumerate() {
        s.push_str(&format!(" {}:\n", specs[i].name));
        match t {
            Some(r) => s.push_str(&vcore::val::show_rows(r, 15)),
            None => s.push_str("  <missing>\n"),
        }
    }
    s
}

fn dml_cfg(g: &GenCfg, t: &mut Tape, fks: bool) -> DmlCfg {
    let _ = g;
    DmlCfg {
        tables: if t.chance(1, 3) { 2 } else { 1 },
        pk: true,
        composite_pk: true,
        uniques: true,
        not_null: t.chance(1, 4),
        checks: false,
        fks,
        self_fk: false,
        user_indexes: true,
        unique_indexes: true,
        max_rows: 8,
        key_updates: true,
        inline_fk: false,
        setnull_on_notnull: false,
        two_fks_same_parent: false,
        replace: false,
        odku: false,
    }
}

fn gen_load(t: &mut Tape, specs: &[TSpec], state: &mut Vec<Rows>, next_key: &mut i64, c: &DmlCfg, out: &mut Vec<TOp>) {
    for ti in 0..specs.len() {
        let n = match t.weighted(&[6, 1, 2]) {
            0 => t.range(2, c.max_rows as i64) as usize,
            1 => 0,
            _ => 1,
        };
        let mut rows = Vec::new();
        for _ in 0..n {
            rows.push(gen_row(t, specs, state, ti, next_key));
        }
        for chunk in rows.chunks(4) {
            let s = Stmt::Insert { t: ti, rows: chunk.to_vec() };
            if let Ok(o) = model_apply(specs, state, &s) {
                *state = o.state;
            }
            out.push(TOp::S(s));
        }
    }
}

fn gen_dml(t: &mut Tape, specs: &[TSpec], state: &mut Vec<Rows>, next_key: &mut i64, c: &DmlCfg) -> TOp {
    let s = gen_stmt(t, specs, state, c, next_key);
    if let Ok(o) = model_apply(specs, state, &s) {
        *state = o.state;
    }
    TOp::S(s)
}

// ---------------------------------------------------------------------------------------------
// C13

#[derive(Clone, Debug, Serialize, Deserialize)]
pub struct C13Case {
    pub specs: Vec<TSpec>,
    /// which of the spec's user indexes exist before the history starts
    pub live0: Vec<Vec<bool>>,
    pub pre: Vec<TOp>,
    pub body: Vec<TOp>,
    pub commit: bool,
    pub post: Vec<TOp>,
    #[serde(default)]
    pub scenario: Option<vcore::scenario::Scenario>,
}

pub struct C13;

fn gen_ddl(t: &mut Tape, specs: &[TSpec], live: &mut Vec<Vec<bool>>, extra: &mut (bool, bool)) -> TOp {
    // user index create/drop on spec tables is preferred: that is where the registry outside
    // the snapshot lives
    let mut idx: Vec<(usize, usize)> = Vec::new();
    for (ti, s) in specs.iter().enumerate() {
        for k in 0..s.indexes.len() {
            idx.push((ti, k));
        }
    }
    let w = t.weighted(&[6, 2, 2, 1, 1]);
    if w == 0 && !idx.is_empty() {
        let (ti, k) = idx[t.below(idx.len())];
        if live[ti][k] {
            live[ti][k] = false;
            return TOp::S(Stmt::DropIndex { t: ti, k });
        } else {
            live[ti][k] = true;
            return TOp::S(Stmt::CreateIndex { t: ti, k });
        }
    }
    let ti = t.below(specs.len());
    let tn = &specs[ti].name;
    match w {
        0 | 1 => {
            if !extra.0 {
                extra.0 = true;
                TOp::Raw("create_table".into(), "CREATE TABLE x0 (xa INTEGER PRIMARY KEY, xb VARCHAR(10))".into())
            } else if t.chance(1, 2) {
                TOp::Raw("insert_new_table".into(), "INSERT INTO x0 VALUES (1, 'p'), (2, 'q')".into())
            } else {
                extra.0 = false;
                TOp::Raw("drop_table".into(), "DROP TABLE x0".into())
            }
        }
        2 => {
            if !extra.1 {
                extra.1 = true;
                TOp::Raw("create_view".into(), format!("CREATE VIEW v0 AS SELECT * FROM {}", tn))
            } else {
                extra.1 = false;
                TOp::Raw("drop_view".into(), "DROP VIEW v0".into())
            }
        }
        3 => TOp::Raw("alter_add_column".into(), format!("ALTER TABLE {} ADD COLUMN zz INTEGER", tn)),
        _ => {
            if specs.len() > 1 && !specs.iter().any(|s| s.fks.iter().any(|f| f.parent == ti)) {
                TOp::Raw("drop_table".into(), format!("DROP TABLE {}", tn))
            } else {
                TOp::Raw("create_index_new".into(), format!("CREATE INDEX ixn ON {} ({})", tn, specs[ti].cols[specs[ti].cols.len() - 1].0))
            }
        }
    }
}

impl C13 {
    fn setup(case: &C13Case) -> Vec<String> {
        let mut v: Vec<String> = case.specs.iter().map(|s| s.create_sql(&case.specs)).collect();
        for (ti, s) in case.specs.iter().enumerate() {
            for k in 0..s.indexes.len() {
                if case.live0[ti][k] {
                    v.push(s.index_sql(k));
                }
            }
        }
        v
    }
}

fn obs_diff(a: &DbObs, b: &DbObs) -> Option<String> {
    engine::diff_obs(a, b)
}

impl Check for C13 {
    type Case = C13Case;
    fn id(&self) -> &'static str {
        "C13"
    }
    fn rule(&self) -> String {
        "1-2 tables (PRIMARY KEY 1-2 columns, UNIQUE columns, 0-2 user indexes per table some UNIQUE and some not yet created, optional FOREIGN KEY with CASCADE/SET NULL/NO ACTION), loaded by committed multi-row INSERTs and 0-3 committed DML statements; \
         then BEGIN, 1-10 statements (INSERT / UPDATE incl. indexed and key columns / DELETE / TRUNCATE / INSERT..SELECT, CREATE INDEX and DROP INDEX of user indexes, CREATE/DROP TABLE, CREATE/DROP VIEW, ALTER TABLE ADD COLUMN), then ROLLBACK (2/3) or COMMIT (1/3), then 0-4 further DML statements. \
         Oracle ROLLBACK: observe(db) (tables, columns, rows bit-exact, index names, views, triggers) and a battery of queries (SELECT * and, per indexed column, ORDER BY, =, >=, <, IN with constants taken from the case's INSERTs) give the same answers after ROLLBACK as just before BEGIN, \
         and every later statement behaves (Ok/Err, observe, probes) as on a twin database that executed only the committed prefix. Oracle COMMIT: the same comparison against a twin that executed the body in auto-commit mode. \
         Non-trivial = the body changed the observation or the probe answers at some point (something had to be restored / kept) and the transaction ended successfully. Distinct = hash of the case."
            .into()
    }
    fn assumptions(&self) -> Vec<String> {
        vec![
            "reference = the engine itself: its own observation before BEGIN, and a twin Database built by re-executing the committed statements (ROLLBACK) or all statements without BEGIN/COMMIT (COMMIT); defects common to both sides are the business of C09-C15".into(),
            "single session; statements that fail inside the transaction are expected to fail identically on the twin".into(),
        ]
    }
    fn cases(&self, tier: Tier) -> u64 {
        match tier {
            Tier::Quick => 60_000,
            Tier::Thorough => 1_000_000,
        }
    }
    fn tape_len(&self, _t: Tier) -> usize {
        1400
    }
    fn build(&self, t: &mut Tape, g: &GenCfg) -> C13Case {
        let fks = t.chance(1, 4);
        let c = dml_cfg(g, t, fks);
        let specs = gen_specs(t, &c);
        let mut live: Vec<Vec<bool>> = specs.iter().map(|s| s.indexes.iter().map(|_| !t.chance(1, 4)).collect()).collect();
        let live0 = live.clone();
        let mut state: Vec<Rows> = vec![Vec::new(); specs.len()];
        let mut nk = 1i64;
        let mut pre = Vec::new();
        gen_load(t, &specs, &mut state, &mut nk, &c, &mut pre);
        for _ in 0..t.range(0, 3) {
            pre.push(gen_dml(t, &specs, &mut state, &mut nk, &c));
        }
        let before = state.clone();
        let mut body = Vec::new();
        let mut extra = (false, false);
        let ddl_ok = !g.avoiding("c13.rollback.ddl_in_txn");
        for _ in 0..t.range(1, 10) {
            if ddl_ok && t.chance(1, 4) {
                body.push(gen_ddl(t, &specs, &mut live, &mut extra));
            } else {
                body.push(gen_dml(t, &specs, &mut state, &mut nk, &c));
            }
        }
        let commit = t.chance(1, 3);
        if !commit {
            state = before;
        }
        let mut post = Vec::new();
        for _ in 0..t.range(0, 4) {
            post.push(gen_dml(t, &specs, &mut state, &mut nk, &c));
        }
        C13Case { specs, live0, pre, body, commit, post, scenario: None }
    }
    fn render(&self, c: &C13Case) -> String {
        if let Some(sc) = &c.scenario {
            return sc.steps.iter().map(|s| s.sql.clone()).collect::<Vec<_>>().join(";\n");
        }
        let mut v = C13::setup(c);
        v.extend(c.pre.iter().map(|o| op_sql(o, &c.specs)));
        v.push("BEGIN".into());
        v.extend(c.body.iter().map(|o| op_sql(o, &c.specs)));
        v.push(if c.commit { "COMMIT".into() } else { "ROLLBACK".into() });
        v.extend(c.post.iter().map(|o| op_sql(o, &c.specs)));
        v.join(";\n")
    }
    fn run(&self, case: &C13Case, obs: &mut Obs) -> Verdict {
        if let Some(sc) = &case.scenario {
            obs.nontrivial = true;
            obs.class("scenario_regression_input");
            return match vcore::scenario::run(sc) {
                Ok(()) => Verdict::Pass,
                Err(d) => Verdict::fail(format!("c13.scenario.{}", sc.name), d),
            };
        }
        let specs = &case.specs;
        let mut db = Database::new();
        let mut twin = Database::new();
        for st in C13::setup(case) {
            if exec(&mut db, &st).is_err() || exec(&mut twin, &st).is_err() {
                obs.class("schema_rejected");
                return Verdict::Pass;
            }
        }
        let all_ops: Vec<&TOp> = case.pre.iter().chain(case.body.iter()).chain(case.post.iter()).collect();
        let pool = probe_values(specs, &all_ops);
        let probes = probe_sqls(specs, &pool);
        let mut log: Vec<String> = Vec::new();
        for o in &case.pre {
            let sql = op_sql(o, specs);
            log.push(sql.clone());
            let a = exec(&mut db, &sql);
            let b = exec(&mut twin, &sql);
            if a.is_ok() != b.is_ok() {
                return Verdict::Harness(format!("the engine is not deterministic on the committed prefix: `{}` {:?} vs {:?}", sql, a, b));
            }
        }
        let o0 = engine::observe(&db);
        let p0 = run_probes(&db, &probes);
        if let Some(d) = obs_diff(&o0, &engine::observe(&twin)) {
            return Verdict::Harness(format!("twin differs before BEGIN: {}", d));
        }
        if let Err(e) = exec(&mut db, "BEGIN") {
            return Verdict::fail("c13.begin_failed".to_string(), e);
        }
        log.push("BEGIN".into());
        let mut changed = false;
        let mut kinds: Vec<String> = Vec::new();
        for o in &case.body {
            let sql = op_sql(o, specs);
            log.push(sql.clone());
            obs.sub_evals += 1;
            let a = exec(&mut db, &sql);
            if case.commit {
                let b = exec(&mut twin, &sql);
                if a.is_ok() != b.is_ok() {
                    let sig = format!("c13.in_txn_differs.{}", op_kind(o));
                    return Verdict::fail(sig, format!("`{}` inside the transaction: {:?}; in auto-commit mode on the twin: {:?}\n--- history ---\n{}", sql, a, b, log.join(";\n")));
                }
            }
            if a.is_ok() {
                let k = op_kind(o);
                if !kinds.contains(&k) {
                    kinds.push(k);
                }
            }
            if !changed && (engine::observe(&db) != o0) {
                changed = true;
            }
        }
        kinds.sort();
        let end = if case.commit { "COMMIT" } else { "ROLLBACK" };
        log.push(end.into());
        if let Err(e) = exec(&mut db, end) {
            return Verdict::fail(format!("c13.{}_failed", end.to_lowercase()), format!("{}\n--- history ---\n{}", e, log.join(";\n")));
        }
        obs.class(if case.commit { "end:commit" } else { "end:rollback" });
        for k in &kinds {
            obs.class(&format!("body:{}", k));
        }
        // the trigger of a failure = which kinds of statement ran in the body: DDL kinds first
        let ddl_kinds: Vec<&String> = kinds.iter().filter(|k| !matches!(k.as_str(), "insert" | "update" | "delete" | "truncate" | "insert_select")).collect();
        let trigger = if let Some(k) = ddl_kinds.first() {
            (*k).clone()
        } else if specs.iter().enumerate().any(|(ti, s)| s.indexes.iter().enumerate().any(|(k, _)| case.live0[ti][k])) {
            "dml_on_user_indexed_table".to_string()
        } else {
            "dml".to_string()
        };
        let mode = if case.commit { "commit" } else { "rollback" };
        let o1 = engine::observe(&db);
        let reference = if case.commit { engine::observe(&twin) } else { o0.clone() };
        if let Some(d) = obs_diff(&reference, &o1) {
            return Verdict::fail(format!("c13.{}.observe.{}", mode, trigger), format!("after {} the database differs from {} (expected vs actual):\n{}--- history ---\n{}", end, if case.commit { "the twin that ran the body in auto-commit mode" } else { "its state before BEGIN" }, d, log.join(";\n")));
        }
        let p1 = run_probes(&db, &probes);
        let pref = if case.commit { run_probes(&twin, &probes) } else { p0.clone() };
        if let Some(d) = diff_probes(&probes, &pref, &p1, "expected", "actual") {
            return Verdict::fail(format!("c13.{}.query.{}", mode, trigger), format!("after {} a query answers differently:\n{}--- history ---\n{}", end, d, log.join(";\n")));
        }
        if !changed && diff_probes(&probes, &p0, &p1, "", "").is_some() {
            changed = true;
        }
        for o in &case.post {
            let sql = op_sql(o, specs);
            log.push(sql.clone());
            obs.sub_evals += 1;
            let a = exec(&mut db, &sql);
            let b = exec(&mut twin, &sql);
            let same_out = match (&a, &b) {
                (Ok(engine::Out::Count(x)), Ok(engine::Out::Count(y))) => x == y,
                (Ok(_), Ok(_)) | (Err(_), Err(_)) => true,
                _ => false,
            };
            if !same_out {
                return Verdict::fail(format!("c13.{}.later_statement.{}", mode, trigger), format!("after {}, `{}` gives {:?} but {:?} on the twin\n--- history ---\n{}", end, sql, a, b, log.join(";\n")));
            }
            if let Some(d) = obs_diff(&engine::observe(&twin), &engine::observe(&db)) {
                return Verdict::fail(format!("c13.{}.later_state.{}", mode, trigger), format!("after {} and `{}` the database differs from the twin (expected vs actual):\n{}--- history ---\n{}", end, sql, d, log.join(";\n")));
            }
        }
        if !case.post.is_empty() {
            let (pa, pb) = (run_probes(&db, &probes), run_probes(&twin, &probes));
            if let Some(d) = diff_probes(&probes, &pb, &pa, "expected (twin)", "actual") {
                return Verdict::fail(format!("c13.{}.later_query.{}", mode, trigger), format!("after {} and the later statements a query answers differently:\n{}--- history ---\n{}", end, d, log.join(";\n")));
            }
        }
        obs.nontrivial = changed;
        if changed {
            obs.class("body_changed_observation");
        }
        Verdict::Pass
    }
}

// ---------------------------------------------------------------------------------------------
// C14

#[derive(Clone, Debug, Serialize, Deserialize)]
pub struct C14Case {
    pub specs: Vec<TSpec>,
    pub pre: Vec<TOp>,
    /// DML and savepoint operations inside one transaction
    pub body: Vec<TOp>,
    pub commit: bool,
    #[serde(default)]
    pub scenario: Option<vcore::scenario::Scenario>,
}

pub struct C14;

impl Check for C14 {
    type Case = C14Case;
    fn id(&self) -> &'static str {
        "C14"
    }
    fn rule(&self) -> String {
        "1-2 tables (PRIMARY KEY, UNIQUE, user indexes, optional FOREIGN KEY with CASCADE / SET NULL so that one statement changes several tables), committed load, then BEGIN and 2-16 operations: INSERT (1-5 rows) / UPDATE / DELETE / INSERT..SELECT (statements that fail included), \
         SAVEPOINT s<n>, ROLLBACK TO SAVEPOINT (a live one, the same one twice, or one destroyed by an earlier rollback), RELEASE SAVEPOINT, then COMMIT or ROLLBACK. \
         Oracle (history invariant on the engine's own contents): the contents of every table (storage scan and SELECT *) right after ROLLBACK TO s equal the contents recorded when SAVEPOINT s was executed; s can be rolled back to again; a savepoint created after s is gone (ROLLBACK TO it fails and changes nothing); \
         RELEASE and SAVEPOINT change no contents; after COMMIT the contents equal those after the last operation. Non-trivial = a ROLLBACK TO a live savepoint happened while the contents differed from the recorded ones. Distinct = hash of the case."
            .into()
    }
    fn assumptions(&self) -> Vec<String> {
        vec![
            "savepoint names are unique within a case except for re-use of names destroyed by ROLLBACK TO; savepoints later than a released one are not referenced again (the statement says nothing about them)".into(),
            "only table contents are compared (as the property states); index structures after savepoint rollback are counted as class index_view_differs but decided by C13/C15".into(),
        ]
    }
    fn cases(&self, tier: Tier) -> u64 {
        match tier {
            Tier::Quick => 200_000,
            Tier::Thorough => 5_000_000,
        }
    }
    fn tape_len(&self, _t: Tier) -> usize {
        1400
    }
    fn build(&self, t: &mut Tape, g: &GenCfg) -> C14Case {
        let fks = t.chance(1, 3);
        let c = dml_cfg(g, t, fks);
        let specs = gen_specs(t, &c);
        let mut state: Vec<Rows> = vec![Vec::new(); specs.len()];
        let mut nk = 1i64;
        let mut pre = Vec::new();
        gen_load(t, &specs, &mut state, &mut nk, &c, &mut pre);
        let mut body = Vec::new();
        // generation-time model of the savepoint stack: (name, state)
        let mut stack: Vec<(String, Vec<Rows>)> = Vec::new();
        let mut destroyed: Vec<String> = Vec::new();
        let mut counter = 0;
        let only_insert = g.avoiding("c14.rollback_to.update_not_undone") || g.avoiding("c14.rollback_to.delete_not_undone");
        for _ in 0..t.range(2, 16) {
            match t.weighted(&[6, 2, 2, 1, 1]) {
                1 => {
                    counter += 1;
                    let name = if !destroyed.is_empty() && t.chance(1, 4) { destroyed.remove(0) } else { format!("s{}", counter) };
                    stack.push((name.clone(), state.clone()));
                    body.push(TOp::S(Stmt::Savepoint(name)));
                }
                2 if !stack.is_empty() => {
                    // mostly the innermost, sometimes an outer one
                    let i = if t.chance(2, 3) { stack.len() - 1 } else { t.below(stack.len()) };
                    state = stack[i].1.clone();
                    for (n, _) in stack.drain(i + 1..) {
                        destroyed.push(n);
                    }
                    body.push(TOp::S(Stmt::RollbackTo(stack[i].0.clone())));
                }
                3 if !stack.is_empty() => {
                    let i = if t.chance(2, 3) { stack.len() - 1 } else { t.below(stack.len()) };
                    let name = stack[i].0.clone();
                    // standard semantics: the released savepoint and all later ones are gone; none of them is referenced again
                    stack.truncate(i);
                    body.push(TOp::S(Stmt::Release(name)));
                }
                4 if !destroyed.is_empty() => {
                    body.push(TOp::S(Stmt::RollbackTo(destroyed[t.below(destroyed.len())].clone())));
                }
                _ => {
                    let mut op = gen_dml(t, &specs, &mut state, &mut nk, &c);
                    if only_insert {
                        let mut tries = 0;
                        while !matches!(op, TOp::S(Stmt::Insert { .. })) && tries < 6 {
                            op = gen_dml(t, &specs, &mut state, &mut nk, &c);
                            tries += 1;
                        }
                    }
                    body.push(op);
                }
            }
        }
        C14Case { specs, pre, body, commit: t.chance(2, 3), scenario: None }
    }
    fn render(&self, c: &C14Case) -> String {
        if let Some(sc) = &c.scenario {
            return sc.steps.iter().map(|s| s.sql.clone()).collect::<Vec<_>>().join(";\n");
        }
        let mut v = setup_sql(&c.specs);
        v.extend(c.pre.iter().map(|o| op_sql(o, &c.specs)));
        v.push("BEGIN".into());
        v.extend(c.body.iter().map(|o| op_sql(o, &c.specs)));
        v.push(if c.commit { "COMMIT".into() } else { "ROLLBACK".into() });
        v.join(";\n")
    }
    fn run(&self, case: &C14Case, obs: &mut Obs) -> Verdict {
        if let Some(sc) = &case.scenario {
            obs.nontrivial = true;
            obs.class("scenario_regression_input");
            return match vcore::scenario::run(sc) {
                Ok(()) => Verdict::Pass,
                Err(d) => Verdict::fail(format!("c14.scenario.{}", sc.name), d),
            };
        }
        let specs = &case.specs;
        let mut db = Database::new();
        for st in setup_sql(specs) {
            if exec(&mut db, &st).is_err() {
                obs.class("schema_rejected");
                return Verdict::Pass;
            }
        }
        let mut log: Vec<String> = Vec::new();
        for o in &case.pre {
            let sql = op_sql(o, specs);
            log.push(sql.clone());
            let _ = exec(&mut db, &sql);
        }
        let at_begin = rows_of(&db, specs);
        if let Err(e) = exec(&mut db, "BEGIN") {
            return Verdict::fail("c14.begin_failed".to_string(), e);
        }
        log.push("BEGIN".into());
        let select_star = |db: &Database| -> Vec<Option<Vec<CRow>>> { specs.iter().map(|s| engine::query(db, &format!("SELECT * FROM {}", s.name)).ok()).collect() };
        // (name, contents when created, kinds of effective statements since)
        let mut stack: Vec<(String, Vec<Option<Vec<CRow>>>, Vec<String>)> = Vec::new();
        let mut destroyed: Vec<String> = Vec::new();
        let mut nontrivial = false;
        macro_rules! fail {
            ($sig:expr, $detail:expr) => {{
                let sig: String = $sig;
                if vcore::kf::is_open_global(&sig) {
                    if !obs.known_hits.contains(&sig) {
                        obs.known_hits.push(sig);
                    }
                    // contents are no longer what the definition says: stop this history
                    obs.nontrivial = true;
                    return Verdict::Pass;
                } else {
                    return Verdict::fail(sig, format!("{}\n--- history ---\n{}", $detail, log.join(";\n")));
                }
            }};
        }
        for o in &case.body {
            let sql = op_sql(o, specs);
            log.push(sql.clone());
            obs.sub_evals += 1;
            let before = rows_of(&db, specs);
            let r = exec(&mut db, &sql);
            let after = rows_of(&db, specs);
            match o {
                TOp::S(Stmt::Savepoint(n)) => {
                    if let Err(e) = &r {
                        fail!("c14.savepoint_failed".to_string(), format!("`{}` failed: {}", sql, e));
                    }
                    if !rows_eq(&before, &after) {
                        fail!("c14.savepoint.changes_data".to_string(), format!("`{}` changed table contents", sql));
                    }
                    destroyed.retain(|d| d != n);
                    stack.push((n.clone(), after, Vec::new()));
                }
                TOp::S(Stmt::Release(n)) => {
                    if let Err(e) = &r {
                        fail!("c14.release_failed".to_string(), format!("`{}` failed: {}", sql, e));
                    }
                    if !rows_eq(&before, &after) {
                        fail!("c14.release.changes_data".to_string(), format!("`{}` changed table contents:\nbefore:\n{}after:\n{}", sql, show_tables(specs, &before), show_tables(specs, &after)));
                    }
                    if let Some(i) = stack.iter().position(|s| &s.0 == n) {
                        // kinds recorded for the released savepoint and later ones flow to the enclosing one
                        let gone: Vec<_> = stack.drain(i..).collect();
                        if let Some(last) = stack.last_mut() {
                            for g in gone {
                                for k in g.2 {
                                    if !last.2.contains(&k) {
                                        last.2.push(k);
                                    }
                                }
                            }
                        }
                    }
                    obs.class("release");
                }
                TOp::S(Stmt::RollbackTo(n)) => {
                    if let Some(i) = stack.iter().position(|s| &s.0 == n) {
                        let kinds = {
                            let mut k: Vec<String> = stack[i..].iter().flat_map(|s| s.2.clone()).collect();
                            k.sort();
                            k.dedup();
                            k
                        };
                        // the most specific trigger: which kind of statement had to be undone
                        let trig = ["truncate", "delete", "update", "insert_select", "insert"].iter().find(|k| kinds.iter().any(|x| x == *k)).map(|k| k.to_string()).unwrap_or_else(|| "nothing".into());
                        if let Err(e) = &r {
                            fail!(format!("c14.rollback_to.failed.{}", trig), format!("`{}` names a live savepoint but failed: {}", sql, e));
                        }
                        let want = stack[i].1.clone();
                        if !rows_eq(&before, &want) {
                            nontrivial = true;
                            obs.class(&format!("undo:{}", trig));
                        }
                        if !rows_eq(&after, &want) {
                            fail!(
                                format!("c14.rollback_to.{}_not_undone", trig),
                                format!("after `{}` the table contents differ from those recorded at SAVEPOINT {}:\nrecorded:\n{}now:\n{}", sql, n, show_tables(specs, &want), show_tables(specs, &after))
                            );
                        }
                        let ss = select_star(&db);
                        if !rows_eq(&ss, &want) {
                            fail!(format!("c14.rollback_to.select_star.{}", trig), format!("after `{}` SELECT * differs from the contents recorded at SAVEPOINT {}:\nrecorded:\n{}now:\n{}", sql, n, show_tables(specs, &want), show_tables(specs, &ss)));
                        }
                        for (nm, _, _) in stack.drain(i + 1..) {
                            destroyed.push(nm);
                        }
                        stack[i].2.clear();
                        obs.class("rollback_to_live");
                        if index_mirror(&db, specs, &specs.iter().map(|s| vec![true; s.indexes.len()]).collect::<Vec<_>>()).is_some() {
                            obs.class("index_view_differs_after_rollback_to");
                        }
                    } else if destroyed.contains(n) {
                        obs.class("rollback_to_destroyed");
                        if r.is_ok() {
                            fail!("c14.destroyed_savepoint_still_alive".to_string(), format!("`{}` succeeded although that savepoint was destroyed by an earlier ROLLBACK TO an outer savepoint", sql));
                        }
                        if !rows_eq(&before, &after) {
                            fail!("c14.failed_rollback_to.changes_data".to_string(), format!("`{}` failed but changed table contents", sql));
                        }
                    }
                }
                _ => {
                    if r.is_ok() && !rows_eq(&before, &after) {
                        let k = op_kind(o);
                        if let Some(last) = stack.last_mut() {
                            if !last.2.contains(&k) {
                                last.2.push(k);
                            }
                        }
                    } else if r.is_err() && !rows_eq(&before, &after) {
                        // a failed statement left changes behind: C11's business; the savepoint
                        // relation still applies to whatever the contents are now
                        obs.class("other_property:c11");
                        if let Some(last) = stack.last_mut() {
                            let k = op_kind(o);
                            if !last.2.contains(&k) {
                                last.2.push(k);
                            }
                        }
                    }
                }
            }
        }
        let last = rows_of(&db, specs);
        let end = if case.commit { "COMMIT" } else { "ROLLBACK" };
        log.push(end.into());
        if let Err(e) = exec(&mut db, end) {
            fail!(format!("c14.{}_failed", end.to_lowercase()), e);
        }
        let fin = rows_of(&db, specs);
        if case.commit {
            if !rows_eq(&fin, &last) {
                fail!("c14.commit.changes_data".to_string(), format!("COMMIT changed table contents:\nbefore:\n{}after:\n{}", show_tables(specs, &last), show_tables(specs, &fin)));
            }
        } else if !rows_eq(&fin, &at_begin) {
            obs.class("other_property:c13");
        }
        obs.nontrivial = nontrivial;
        Verdict::Pass
    }
}
