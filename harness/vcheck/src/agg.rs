//! Shared machinery for C03 (columnar fast path == row path) and C07 (aggregates follow their
//! SQL definitions): a single-table aggregate query IR small enough to be evaluated by an
//! executable model in the harness.

use serde::{Deserialize, Serialize};
use vcore::sql::ir::{lit_sql, AggFn, BinOp, ColTy, Dialect};
use vcore::val::{CRow, CV, V};
use vcore::Tape;

#[derive(Clone, Debug, Serialize, Deserialize)]
pub struct ATable {
    pub cols: Vec<(String, ColTy)>,
    pub rows: Vec<Vec<V>>,
}

#[derive(Clone, Debug, Serialize, Deserialize)]
pub enum AExpr {
    Col(usize),
    Lit(V),
    Bin(Box<AExpr>, BinOp, Box<AExpr>),
}

#[derive(Clone, Debug, Serialize, Deserialize)]
pub enum APred {
    Cmp(AExpr, BinOp, AExpr),
    Between(AExpr, AExpr, AExpr),
    IsNull(AExpr, bool),
    And(Box<APred>, Box<APred>),
    Or(Box<APred>, Box<APred>),
    In(AExpr, Vec<V>, bool),
    Not(Box<APred>),
}

#[derive(Clone, Debug, Serialize, Deserialize)]
pub struct AAgg {
    pub f: AggFn,
    pub distinct: bool,
    /// None = COUNT(*)
    pub arg: Option<AExpr>,
}

#[derive(Clone, Debug, Serialize, Deserialize)]
pub struct AQuery {
    pub aggs: Vec<AAgg>,
    pub where_: Option<APred>,
    pub group_by: Vec<usize>,
    /// HAVING agg <op> literal
    pub having: Option<(AAgg, BinOp, V)>,
    pub order_by_first: bool,
    pub limit: Option<u64>,
    pub offset: Option<u64>,
}

// ---------------------------------------------------------------------------------------------
// rendering

impl ATable {
    pub fn setup_sql(&self) -> Vec<String> {
        let mut v = vec![format!("CREATE TABLE t ({})", self.cols.iter().map(|(n, t)| format!("{} {}", n, t.sql())).collect::<Vec<_>>().join(", "))];
        for chunk in self.rows.chunks(50) {
            v.push(vcore::sql::ir::insert_sql("t", None, chunk, Dialect::Vibe));
        }
        v
    }
}

impl AExpr {
    pub fn render(&self, t: &ATable) -> String {
        match self {
            AExpr::Col(i) => t.cols[*i].0.clone(),
            AExpr::Lit(v) => lit_sql(v, Dialect::Vibe),
            AExpr::Bin(a, op, b) => format!("({} {} {})", a.render(t), op.sql(), b.render(t)),
        }
    }
}
impl APred {
    pub fn render(&self, t: &ATable) -> String {
        match self {
            APred::Cmp(a, op, b) => format!("({} {} {})", a.render(t), op.sql(), b.render(t)),
            APred::Between(e, lo, hi) => format!("({} BETWEEN {} AND {})", e.render(t), lo.render(t), hi.render(t)),
            APred::IsNull(e, neg) => format!("({} IS {}NULL)", e.render(t), if *neg { "NOT " } else { "" }),
            APred::And(a, b) => format!("({} AND {})", a.render(t), b.render(t)),
            APred::Or(a, b) => format!("({} OR {})", a.render(t), b.render(t)),
            APred::In(e, vs, neg) => format!(
                "({} {}IN ({}))",
                e.render(t),
                if *neg { "NOT " } else { "" },
                vs.iter().map(|v| lit_sql(v, Dialect::Vibe)).collect::<Vec<_>>().join(", ")
            ),
            APred::Not(a) => format!("(NOT {})", a.render(t)),
        }
    }
}
impl AAgg {
    pub fn render(&self, t: &ATable) -> String {
        match &self.arg {
            None => "COUNT(*)".to_string(),
            Some(a) => format!("{}({}{})", self.f.sql(), if self.distinct { "DISTINCT " } else { "" }, a.render(t)),
        }
    }
}

#[derive(Clone, Copy, PartialEq, Eq, Debug)]
pub enum Dodge {
    None,
    /// FROM (SELECT * FROM t) AS t — the gate requires a plain table scan
    Derived,
    /// WHERE (p) OR FALSE / WHERE (1 = 0) OR ... — the gate requires a "simple" top-level predicate
    OrFalse,
}

impl AQuery {
    pub fn render(&self, t: &ATable, dodge: Dodge) -> String {
        let mut items: Vec<String> = self.group_by.iter().map(|&i| t.cols[i].0.clone()).collect();
        items.extend(self.aggs.iter().map(|a| a.render(t)));
        let from = if dodge == Dodge::Derived { "(SELECT * FROM t) AS t".to_string() } else { "t".to_string() };
        let mut s = format!("SELECT {} FROM {}", items.join(", "), from);
        match (&self.where_, dodge) {
            (Some(w), Dodge::OrFalse) => s.push_str(&format!(" WHERE ({} OR (1 = 0))", w.render(t))),
            (None, Dodge::OrFalse) => s.push_str(" WHERE ((1 = 1) OR (1 = 0))"),
            (Some(w), _) => s.push_str(&format!(" WHERE {}", w.render(t))),
            (None, _) => {}
        }
        if !self.group_by.is_empty() {
            s.push_str(&format!(" GROUP BY {}", self.group_by.iter().map(|&i| t.cols[i].0.clone()).collect::<Vec<_>>().join(", ")));
        }
        if let Some((a, op, v)) = &self.having {
            s.push_str(&format!(" HAVING ({} {} {})", a.render(t), op.sql(), lit_sql(v, Dialect::Vibe)));
        }
        if self.order_by_first {
            s.push_str(" ORDER BY 1");
        }
        if let Some(l) = self.limit {
            s.push_str(&format!(" LIMIT {}", l));
        }
        if let Some(o) = self.offset {
            s.push_str(&format!(" OFFSET {}", o));
        }
        s
    }
}

// ---------------------------------------------------------------------------------------------
// model

#[derive(Clone, Debug, PartialEq)]
pub enum MV {
    Null,
    I(i128),
    F(f64),
    S(String),
}

fn mv_of(v: &V) -> MV {
    match v {
        V::Null => MV::Null,
        V::Int(i) | V::Big(i) => MV::I(*i as i128),
        V::Small(i) => MV::I(*i as i128),
        V::Double(b) | V::Num(b) => MV::F(f64::from_bits(*b)),
        V::Varchar(s) | V::Char(s) => MV::S(s.clone()),
        other => MV::S(format!("{:?}", other)),
    }
}

fn num(m: &MV) -> Option<f64> {
    match m {
        MV::I(i) => Some(*i as f64),
        MV::F(f) => Some(*f),
        _ => None,
    }
}

pub fn eval(e: &AExpr, row: &[V]) -> MV {
    match e {
        AExpr::Col(i) => mv_of(&row[*i]),
        AExpr::Lit(v) => mv_of(v),
        AExpr::Bin(a, op, b) => {
            let (x, y) = (eval(a, row), eval(b, row));
            match (&x, &y) {
                (MV::Null, _) | (_, MV::Null) => MV::Null,
                (MV::I(p), MV::I(q)) => match op {
                    BinOp::Add => MV::I(p + q),
                    BinOp::Sub => MV::I(p - q),
                    BinOp::Mul => MV::I(p * q),
                    _ => MV::Null,
                },
                _ => match (num(&x), num(&y)) {
                    (Some(p), Some(q)) => match op {
                        BinOp::Add => MV::F(p + q),
                        BinOp::Sub => MV::F(p - q),
                        BinOp::Mul => MV::F(p * q),
                        _ => MV::Null,
                    },
                    _ => MV::Null,
                },
            }
        }
    }
}

fn cmp_mv(a: &MV, b: &MV) -> Option<std::cmp::Ordering> {
    match (a, b) {
        (MV::Null, _) | (_, MV::Null) => None,
        (MV::S(x), MV::S(y)) => Some(x.cmp(y)),
        (MV::I(x), MV::I(y)) => Some(x.cmp(y)),
        _ => match (num(a), num(b)) {
            (Some(x), Some(y)) => x.partial_cmp(&y),
            _ => None,
        },
    }
}

fn op_holds(o: std::cmp::Ordering, op: BinOp) -> bool {
    use std::cmp::Ordering::*;
    match op {
        BinOp::Eq => o == Equal,
        BinOp::Ne => o != Equal,
        BinOp::Lt => o == Less,
        BinOp::Le => o != Greater,
        BinOp::Gt => o == Greater,
        BinOp::Ge => o != Less,
        _ => false,
    }
}

/// three-valued: Some(true/false) or None (UNKNOWN)
pub fn holds(p: &APred, row: &[V]) -> Option<bool> {
    match p {
        APred::Cmp(a, op, b) => cmp_mv(&eval(a, row), &eval(b, row)).map(|o| op_holds(o, *op)),
        APred::Between(e, lo, hi) => {
            let v = eval(e, row);
            let a = cmp_mv(&v, &eval(lo, row)).map(|o| o != std::cmp::Ordering::Less);
            let b = cmp_mv(&v, &eval(hi, row)).map(|o| o != std::cmp::Ordering::Greater);
            and3(a, b)
        }
        APred::IsNull(e, neg) => Some((eval(e, row) == MV::Null) != *neg),
        APred::And(a, b) => and3(holds(a, row), holds(b, row)),
        APred::Or(a, b) => match (holds(a, row), holds(b, row)) {
            (Some(true), _) | (_, Some(true)) => Some(true),
            (Some(false), Some(false)) => Some(false),
            _ => None,
        },
        APred::In(e, vs, neg) => {
            let v = eval(e, row);
            if v == MV::Null {
                return None;
            }
            let mut unknown = false;
            let mut found = false;
            for x in vs {
                match cmp_mv(&v, &mv_of(x)) {
                    Some(std::cmp::Ordering::Equal) => found = true,
                    None => unknown = true,
                    _ => {}
                }
            }
            let r = if found {
                Some(true)
            } else if unknown {
                None
            } else {
                Some(false)
            };
            r.map(|b| b != *neg)
        }
        APred::Not(a) => holds(a, row).map(|b| !b),
    }
}
fn and3(a: Option<bool>, b: Option<bool>) -> Option<bool> {
    match (a, b) {
        (Some(false), _) | (_, Some(false)) => Some(false),
        (Some(true), Some(true)) => Some(true),
        _ => None,
    }
}

fn mv_eq_group(a: &MV, b: &MV) -> bool {
    match (a, b) {
        (MV::Null, MV::Null) => true,
        (MV::Null, _) | (_, MV::Null) => false,
        _ => cmp_mv(a, b) == Some(std::cmp::Ordering::Equal),
    }
}

fn to_cv(m: &MV) -> CV {
    match m {
        MV::Null => CV::Null,
        MV::I(i) => CV::Int(*i),
        MV::F(f) => CV::F(*f),
        MV::S(s) => CV::S(s.clone()),
    }
}

/// (value, abs-sum scale for float tolerance)
pub fn agg_model(a: &AAgg, rows: &[&Vec<V>]) -> (MV, f64) {
    let Some(arg) = &a.arg else { return (MV::I(rows.len() as i128), 0.0) };
    let mut vals: Vec<MV> = rows.iter().map(|r| eval(arg, r)).filter(|v| *v != MV::Null).collect();
    if a.distinct {
        let mut d: Vec<MV> = Vec::new();
        for v in vals {
            if !d.iter().any(|x| mv_eq_group(x, &v)) {
                d.push(v);
            }
        }
        vals = d;
    }
    match a.f {
        AggFn::Count => (MV::I(vals.len() as i128), 0.0),
        AggFn::Sum | AggFn::Avg => {
            if vals.is_empty() {
                return (MV::Null, 0.0);
            }
            let all_int = vals.iter().all(|v| matches!(v, MV::I(_)));
            let scale: f64 = vals.iter().filter_map(num).map(f64::abs).sum();
            if a.f == AggFn::Sum {
                if all_int {
                    (MV::I(vals.iter().map(|v| if let MV::I(i) = v { *i } else { 0 }).sum()), scale)
                } else {
                    (MV::F(vals.iter().filter_map(num).sum()), scale)
                }
            } else {
                let s: f64 = if all_int { vals.iter().map(|v| if let MV::I(i) = v { *i } else { 0 }).sum::<i128>() as f64 } else { vals.iter().filter_map(num).sum() };
                (MV::F(s / vals.len() as f64), scale / vals.len() as f64)
            }
        }
        AggFn::Min | AggFn::Max => {
            let mut best: Option<MV> = None;
            for v in vals {
                best = Some(match best {
                    None => v,
                    Some(b) => {
                        let o = cmp_mv(&v, &b);
                        let take = if a.f == AggFn::Min { o == Some(std::cmp::Ordering::Less) } else { o == Some(std::cmp::Ordering::Greater) };
                        if take {
                            v
                        } else {
                            b
                        }
                    }
                });
            }
            (best.unwrap_or(MV::Null), 0.0)
        }
    }
}

pub struct ModelResult {
    pub rows: Vec<CRow>,
    /// per row, per column absolute tolerance for floats
    pub tol: Vec<Vec<f64>>,
    /// number of input rows that pass WHERE
    pub filtered: usize,
    /// groups before HAVING
    pub groups: usize,
}

/// Executable definition of the query's result (before ORDER BY; LIMIT/OFFSET applied only for
/// ungrouped queries where the result has at most one row).
pub fn model(t: &ATable, q: &AQuery) -> ModelResult {
    let pass: Vec<&Vec<V>> = t.rows.iter().filter(|r| q.where_.as_ref().map(|w| holds(w, r) == Some(true)).unwrap_or(true)).collect();
    let mut groups: Vec<(Vec<MV>, Vec<&Vec<V>>)> = Vec::new();
    if q.group_by.is_empty() {
        groups.push((vec![], pass.clone()));
    } else {
        for r in &pass {
            let key: Vec<MV> = q.group_by.iter().map(|&i| mv_of(&r[i])).collect();
            match groups.iter_mut().find(|(k, _)| k.iter().zip(key.iter()).all(|(a, b)| mv_eq_group(a, b))) {
                Some(g) => g.1.push(r),
                None => groups.push((key, vec![r])),
            }
        }
    }
    let ngroups = groups.len();
    let mut rows = Vec::new();
    let mut tol = Vec::new();
    for (key, members) in &groups {
        if let Some((ha, op, lit)) = &q.having {
            let (hv, _) = agg_model(ha, members);
            let keep = cmp_mv(&hv, &mv_of(lit)).map(|o| op_holds(o, *op)) == Some(true);
            if !keep {
                continue;
            }
        }
        let mut row: CRow = key.iter().map(to_cv).collect();
        let mut tr = vec![0.0; key.len()];
        for a in &q.aggs {
            let (v, scale) = agg_model(a, members);
            row.push(to_cv(&v));
            tr.push(scale * 1e-9 + 1e-12);
        }
        rows.push(row);
        tol.push(tr);
    }
    if q.group_by.is_empty() {
        let off = q.offset.unwrap_or(0) as usize;
        let lim = q.limit.map(|l| l as usize).unwrap_or(usize::MAX);
        let kept: Vec<usize> = (0..rows.len()).skip(off).take(lim).collect();
        rows = kept.iter().map(|&i| rows[i].clone()).collect();
        tol = kept.iter().map(|&i| tol[i].clone()).collect();
    }
    ModelResult { rows, tol, filtered: pass.len(), groups: ngroups }
}

/// compare engine rows with the model (multiset; per-cell absolute tolerance from the model)
pub fn matches_model(m: &ModelResult, got: &[CRow]) -> bool {
    if m.rows.len() != got.len() {
        return false;
    }
    let mut used = vec![false; got.len()];
    'outer: for (i, r) in m.rows.iter().enumerate() {
        for (j, g) in got.iter().enumerate() {
            if used[j] || g.len() != r.len() {
                continue;
            }
            let ok = r.iter().zip(g.iter()).enumerate().all(|(c, (a, b))| cell_same(a, b, m.tol[i][c]));
            if ok {
                used[j] = true;
                continue 'outer;
            }
        }
        return false;
    }
    true
}

pub fn cell_same(a: &CV, b: &CV, abs_tol: f64) -> bool {
    if a.same(b, 1e-9) {
        return true;
    }
    match (a.as_f64(), b.as_f64()) {
        (Some(x), Some(y)) => (x - y).abs() <= abs_tol,
        _ => false,
    }
}

pub fn rows_match(a: &[CRow], b: &[CRow]) -> bool {
    vcore::val::multiset_eq(a, b, 1e-9)
}

// ---------------------------------------------------------------------------------------------
// generation

#[derive(Clone, Debug)]
pub struct AggGenCfg {
    pub max_rows: usize,
    /// only shapes the columnar gate accepts (no GROUP BY, no DISTINCT, simple AND-only WHERE)
    pub gate_only: bool,
    pub allow_having: bool,
    pub allow_limit: bool,
    pub allow_strings: bool,
    pub allow_nulls: bool,
    pub allow_empty: bool,
    pub allow_arith_args: bool,
    pub allow_distinct: bool,
    /// 0 = never; n = one table in n has 1000-3000 rows (needed to fill SIMD batches of 1024 values)
    pub big_tables: u32,
    /// DOUBLE values restricted to multiples of 0.5 in [-64, 64]: sums and products of such
    /// values are exact even in f32 (used while the f32-precision findings are open)
    pub exact_floats: bool,
}

pub fn gen_float(t: &mut Tape, exact: bool) -> f64 {
    if exact {
        (t.range(0, 256) - 128) as f64 / 2.0
    } else {
        vcore::sql::gen::gen_float_val(t)
    }
}

fn gen_cell(t: &mut Tape, ty: &ColTy, null_den: u32, exact: bool) -> V {
    if let ColTy::Double = ty {
        if null_den > 0 && t.chance(null_den, 10) {
            return V::Null;
        }
        return V::dbl(gen_float(t, exact));
    }
    vcore::sql::gen::gen_cell(t, ty, null_den)
}

pub fn gen_table(t: &mut Tape, c: &AggGenCfg) -> ATable {
    let ncols = t.range(2, 5) as usize;
    let mut cols = Vec::new();
    for i in 0..ncols {
        let ty = if i == 0 {
            ColTy::Int
        } else {
            match t.weighted(&[4, 3, if c.allow_strings { 2 } else { 0 }]) {
                0 => ColTy::Int,
                1 => ColTy::Double,
                _ => ColTy::Varchar(12),
            }
        };
        cols.push((["a", "b", "c", "d", "e"][i].to_string(), ty));
    }
    let dens: Vec<u32> = cols.iter().map(|_| if c.allow_nulls { *t.pick(&[0u32, 2, 6, 10, 0, 2]) } else { 0 }).collect();
    let big = c.big_tables > 0 && t.chance(1, c.big_tables);
    let nr = match if big { 3 } else { t.weighted(&[8, if c.allow_empty { 1 } else { 0 }, 1]) } {
        0 => t.range(2, c.max_rows.max(2) as i64) as usize,
        1 => 0,
        2 => 1,
        _ => t.range(1000, 3000) as usize,
    };
    let mut rows: Vec<Vec<V>> = Vec::with_capacity(nr);
    // large tables repeat a block of generated rows (a tape long enough for thousands of
    // independent cells would make every case expensive to generate and to shrink)
    let fresh = if big { 37.min(nr) } else { nr };
    for _ in 0..fresh {
        rows.push(cols.iter().enumerate().map(|(i, (_, ty))| gen_cell(t, ty, dens[i], c.exact_floats)).collect());
    }
    for i in fresh..nr {
        let r = rows[i % fresh].clone();
        rows.push(r);
    }
    ATable { cols, rows }
}

fn lit_for(t: &mut Tape, ty: &ColTy, exact: bool) -> V {
    match ty {
        ColTy::Int => V::Int(vcore::sql::gen::gen_int_val(t)),
        ColTy::Double => V::dbl(gen_float(t, exact)),
        _ => V::Varchar(vcore::sql::gen::gen_word(t)),
    }
}

fn numeric_cols(tb: &ATable) -> Vec<usize> {
    (0..tb.cols.len()).filter(|&i| matches!(tb.cols[i].1, ColTy::Int | ColTy::Double)).collect()
}

pub fn gen_arg(t: &mut Tape, tb: &ATable, c: &AggGenCfg, numeric_only: bool) -> AExpr {
    let nums = numeric_cols(tb);
    if c.allow_arith_args && t.chance(1, 4) {
        let a = AExpr::Col(nums[t.below(nums.len())]);
        let b = if t.chance(1, 2) { AExpr::Col(nums[t.below(nums.len())]) } else { AExpr::Lit(V::Int(t.range(1, 3))) };
        return AExpr::Bin(Box::new(a), *t.pick(&[BinOp::Add, BinOp::Mul, BinOp::Sub]), Box::new(b));
    }
    if numeric_only {
        AExpr::Col(nums[t.below(nums.len())])
    } else {
        AExpr::Col(t.below(tb.cols.len()))
    }
}

pub fn gen_agg(t: &mut Tape, tb: &ATable, c: &AggGenCfg) -> AAgg {
    let f = *t.pick(&[AggFn::Count, AggFn::Sum, AggFn::Avg, AggFn::Min, AggFn::Max, AggFn::Count]);
    if f == AggFn::Count && t.chance(1, 2) {
        return AAgg { f, distinct: false, arg: None };
    }
    let numeric_only = matches!(f, AggFn::Sum | AggFn::Avg);
    let distinct = c.allow_distinct && t.chance(1, 5);
    AAgg { f, distinct, arg: Some(gen_arg(t, tb, c, numeric_only)) }
}

fn gen_atom(t: &mut Tape, tb: &ATable, gate: bool, exact: bool) -> APred {
    let ci = t.below(tb.cols.len());
    let ty = tb.cols[ci].1.clone();
    // literals often taken from the data so that boundaries are hit
    let pick_lit = |t: &mut Tape| -> V {
        if !tb.rows.is_empty() && t.chance(1, 2) {
            let v = tb.rows[t.below(tb.rows.len())][ci].clone();
            if v != V::Null {
                return v;
            }
        }
        lit_for(t, &ty, exact)
    };
    match t.weighted(&[12, 4, if gate { 0 } else { 4 }, if gate { 0 } else { 1 }, if gate { 0 } else { 2 }]) {
        0 => APred::Cmp(AExpr::Col(ci), *t.pick(&[BinOp::Eq, BinOp::Lt, BinOp::Gt, BinOp::Le, BinOp::Ge, BinOp::Ne]), AExpr::Lit(pick_lit(t))),
        1 => APred::Between(AExpr::Col(ci), AExpr::Lit(pick_lit(t)), AExpr::Lit(pick_lit(t))),
        2 => APred::IsNull(AExpr::Col(ci), t.chance(1, 2)),
        // a constant condition (folds to TRUE / FALSE before any row is read)
        3 => APred::Cmp(AExpr::Lit(V::Int(1)), BinOp::Eq, AExpr::Lit(V::Int(t.below(2) as i64))),
        // a literal of the other numeric type, on the boundary of a stored value when possible
        _ => {
            let stored: Option<f64> = if !tb.rows.is_empty() {
                match &tb.rows[t.below(tb.rows.len())][ci] {
                    V::Int(i) => Some(*i as f64),
                    V::Double(b) => Some(f64::from_bits(*b)),
                    _ => None,
                }
            } else {
                None
            };
            let lit = match (&ty, stored) {
                (ColTy::Double, Some(f)) if f.fract() == 0.0 && f.abs() < 1e9 => V::Int(f as i64),
                (ColTy::Double, _) => V::Int(t.range(-2, 3)),
                (ColTy::Int, Some(f)) => V::dbl(if t.chance(1, 2) { f } else { f + 0.5 }),
                (ColTy::Int, None) => V::dbl(1.5),
                _ => pick_lit(t),
            };
            APred::Cmp(AExpr::Col(ci), *t.pick(&[BinOp::Le, BinOp::Ge, BinOp::Lt, BinOp::Gt, BinOp::Eq, BinOp::Ne]), AExpr::Lit(lit))
        }
    }
}

pub fn gen_where(t: &mut Tape, tb: &ATable, gate: bool, exact: bool) -> APred {
    match t.weighted(&[5, 3, if gate { 0 } else { 2 }]) {
        0 => gen_atom(t, tb, gate, exact),
        1 => APred::And(Box::new(gen_atom(t, tb, gate, exact)), Box::new(gen_atom(t, tb, gate, exact))),
        _ => APred::Or(Box::new(gen_atom(t, tb, gate, exact)), Box::new(gen_atom(t, tb, gate, exact))),
    }
}

pub fn gen_query(t: &mut Tape, tb: &ATable, c: &AggGenCfg) -> AQuery {
    let n = t.range(1, 4) as usize;
    let aggs = (0..n).map(|_| gen_agg(t, tb, c)).collect();
    let where_ = if t.chance(1, 2) { Some(gen_where(t, tb, c.gate_only, c.exact_floats)) } else { None };
    let group_by = if c.gate_only {
        vec![]
    } else {
        match t.weighted(&[3, 4, 2]) {
            0 => vec![],
            1 => vec![t.below(tb.cols.len())],
            _ => {
                let a = t.below(tb.cols.len());
                let b = t.below(tb.cols.len());
                if a == b {
                    vec![a]
                } else {
                    vec![a, b]
                }
            }
        }
    };
    let having = if c.allow_having && t.chance(1, 4) {
        let a = gen_agg(t, tb, &AggGenCfg { allow_distinct: false, ..c.clone() });
        let lit = match a.f {
            AggFn::Count => V::Int(t.range(0, 3)),
            _ => V::Int(vcore::sql::gen::gen_int_val(t)),
        };
        // string MIN/MAX cannot be compared with an integer literal
        let is_str = matches!(&a.arg, Some(AExpr::Col(i)) if matches!(tb.cols[*i].1, ColTy::Varchar(_))) && a.f != AggFn::Count;
        if is_str {
            None
        } else {
            Some((a, *t.pick(&[BinOp::Gt, BinOp::Le, BinOp::Eq, BinOp::Ne]), lit))
        }
    } else {
        None
    };
    let ungrouped = group_by.is_empty();
    let (limit, offset, order_by_first) = if c.allow_limit && ungrouped && t.chance(1, 4) {
        (if t.chance(2, 3) { Some(*t.pick(&[1u64, 0, 5])) } else { None }, if t.chance(1, 2) { Some(*t.pick(&[0u64, 1])) } else { None }, t.chance(1, 3))
    } else {
        (None, None, false)
    };
    AQuery { aggs, where_, group_by, having, order_by_first, limit, offset }
}

// features used by classifiers ----------------------------------------------------------------

pub fn agg_cols(q: &AQuery) -> Vec<usize> {
    fn cols(e: &AExpr, out: &mut Vec<usize>) {
        match e {
            AExpr::Col(i) => out.push(*i),
            AExpr::Bin(a, _, b) => {
                cols(a, out);
                cols(b, out);
            }
            _ => {}
        }
    }
    let mut v = Vec::new();
    for a in &q.aggs {
        if let Some(e) = &a.arg {
            cols(e, &mut v);
        }
    }
    if let Some((a, _, _)) = &q.having {
        if let Some(e) = &a.arg {
            cols(e, &mut v);
        }
    }
    v.sort();
    v.dedup();
    v
}

/// columns referenced by WHERE
pub fn where_cols(q: &AQuery) -> Vec<usize> {
    fn ecols(e: &AExpr, out: &mut Vec<usize>) {
        match e {
            AExpr::Col(i) => out.push(*i),
            AExpr::Bin(a, _, b) => {
                ecols(a, out);
                ecols(b, out);
            }
            _ => {}
        }
    }
    fn pcols(p: &APred, out: &mut Vec<usize>) {
        match p {
            APred::Cmp(a, _, b) => {
                ecols(a, out);
                ecols(b, out);
            }
            APred::Between(a, b, c) => {
                ecols(a, out);
                ecols(b, out);
                ecols(c, out);
            }
            APred::IsNull(a, _) => ecols(a, out),
            APred::And(a, b) | APred::Or(a, b) => {
                pcols(a, out);
                pcols(b, out);
            }
            APred::In(a, _, _) => ecols(a, out),
            APred::Not(a) => pcols(a, out),
        }
    }
    let mut v = Vec::new();
    if let Some(w) = &q.where_ {
        pcols(w, &mut v);
    }
    v
}

pub fn is_double(t: &ATable, cols: &[usize]) -> bool {
    cols.iter().any(|&c| matches!(t.cols[c].1, ColTy::Double))
}

pub fn has_string_minmax(t: &ATable, q: &AQuery) -> bool {
    q.aggs.iter().chain(q.having.iter().map(|h| &h.0)).any(|a| {
        matches!(a.f, AggFn::Min | AggFn::Max) && matches!(&a.arg, Some(AExpr::Col(i)) if matches!(t.cols[*i].1, ColTy::Varchar(_)))
    })
}

pub fn any_null_in_cols(t: &ATable, cols: &[usize]) -> bool {
    t.rows.iter().any(|r| cols.iter().any(|&c| r[c] == V::Null))
}
