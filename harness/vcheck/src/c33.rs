//! C33 — schema changes keep catalog, storage and index registry consistent.
//! Model-based history check: a small model of tables (columns, rows) and user indexes is kept
//! next to the engine; after every statement the engine's listings, declared columns, table
//! contents and index-driven answers are compared with the model.

use serde::{Deserialize, Serialize};
use vcore::engine;
use vcore::sql::ir::{insert_sql, ColTy, Dialect};
use vcore::val::{CRow, CV, V};
use vcore::{Check, GenCfg, Obs, Tape, Tier, Verdict};
use vibesql_storage::Database;

#[derive(Clone, Debug, Serialize, Deserialize)]
pub enum Op {
    CreateTable { name: String, cols: Vec<(String, ColTy)>, pk: bool },
    DropTable { name: String },
    CreateIndex { name: String, table: String, cols: Vec<String>, unique: bool },
    DropIndex { name: String },
    AddColumn { table: String, col: String, ty: ColTy, default: Option<V>, keyword: bool },
    DropColumn { table: String, col: String },
    /// ALTER TABLE t CHANGE COLUMN old new <same type>
    RenameColumn { table: String, from: String, to: String, ty: ColTy },
    /// ALTER TABLE t ADD CONSTRAINT c CHECK (col >= min)
    AddCheck { table: String, cname: String, col: String, min: i64 },
    DropConstraint { table: String, cname: String },
    Insert { table: String, rows: Vec<Vec<V>> },
    Delete { table: String, col: String, v: V },
    Update { table: String, set_col: String, v: V, where_col: String, wv: V },
}

impl Op {
    pub fn kind(&self) -> &'static str {
        match self {
            Op::CreateTable { .. } => "create_table",
            Op::DropTable { .. } => "drop_table",
            Op::CreateIndex { .. } => "create_index",
            Op::DropIndex { .. } => "drop_index",
            Op::AddColumn { .. } => "add_column",
            Op::DropColumn { .. } => "drop_column",
            Op::RenameColumn { .. } => "rename_column",
            Op::AddCheck { .. } => "add_constraint",
            Op::DropConstraint { .. } => "drop_constraint",
            Op::Insert { .. } => "insert",
            Op::Delete { .. } => "delete",
            Op::Update { .. } => "update",
        }
    }
    fn is_ddl(&self) -> bool {
        !matches!(self, Op::Insert { .. } | Op::Delete { .. } | Op::Update { .. })
    }
    pub fn sql(&self) -> String {
        let l = |v: &V| vcore::sql::ir::bare_lit(v, Dialect::Vibe);
        match self {
            Op::CreateTable { name, cols, pk } => format!(
                "CREATE TABLE {} ({})",
                name,
                cols.iter().enumerate().map(|(i, (n, t))| format!("{} {}{}", n, t.sql(), if *pk && i == 0 { " PRIMARY KEY" } else { "" })).collect::<Vec<_>>().join(", ")
            ),
            Op::DropTable { name } => format!("DROP TABLE {}", name),
            Op::CreateIndex { name, table, cols, unique } => format!("CREATE {}INDEX {} ON {} ({})", if *unique { "UNIQUE " } else { "" }, name, table, cols.join(", ")),
            Op::DropIndex { name } => format!("DROP INDEX {}", name),
            Op::AddColumn { table, col, ty, default, keyword } => {
                format!("ALTER TABLE {} ADD {}{} {}{}", table, if *keyword { "COLUMN " } else { "" }, col, ty.sql(), default.as_ref().map(|d| format!(" DEFAULT {}", l(d))).unwrap_or_default())
            }
            Op::DropColumn { table, col } => format!("ALTER TABLE {} DROP COLUMN {}", table, col),
            Op::RenameColumn { table, from, to, ty } => format!("ALTER TABLE {} CHANGE COLUMN {} {} {}", table, from, to, ty.sql()),
            Op::AddCheck { table, cname, col, min } => format!("ALTER TABLE {} ADD CONSTRAINT {} CHECK ({} >= {})", table, cname, col, min),
            Op::DropConstraint { table, cname } => format!("ALTER TABLE {} DROP CONSTRAINT {}", table, cname),
            Op::Insert { table, rows } => insert_sql(table, None, rows, Dialect::Vibe),
            Op::Delete { table, col, v } => format!("DELETE FROM {} WHERE {} = {}", table, col, l(v)),
            Op::Update { table, set_col, v, where_col, wv } => format!("UPDATE {} SET {} = {} WHERE {} = {}", table, set_col, l(v), where_col, l(wv)),
        }
    }
}

// ---------------------------------------------------------------------------------------------
// model

#[derive(Clone, Debug)]
struct MTable {
    name: String,
    cols: Vec<(String, ColTy)>,
    pk: bool,
    rows: Vec<Vec<V>>,
    checks: Vec<(String, String, i64)>,
    /// kind of the last DDL statement that touched this table
    last_ddl: &'static str,
}
#[derive(Clone, Debug)]
struct MIndex {
    name: String,
    table: String,
    cols: Vec<String>,
    unique: bool,
}
#[derive(Clone, Debug, Default)]
struct Model {
    tables: Vec<MTable>,
    indexes: Vec<MIndex>,
}

fn up(s: &str) -> String {
    s.to_uppercase()
}

impl Model {
    fn table(&self, n: &str) -> Option<usize> {
        self.tables.iter().position(|t| t.name == up(n))
    }
    fn col(&self, ti: usize, c: &str) -> Option<usize> {
        self.tables[ti].cols.iter().position(|(n, _)| *n == up(c))
    }
    /// Ok(()) = the statement is valid and was applied; Err = it must be rejected
    fn apply(&mut self, op: &Op) -> Result<(), &'static str> {
        match op {
            Op::CreateTable { name, cols, pk } => {
                if self.table(name).is_some() {
                    return Err("table exists");
                }
                self.tables.push(MTable { name: up(name), cols: cols.iter().map(|(n, t)| (up(n), t.clone())).collect(), pk: *pk, rows: vec![], checks: vec![], last_ddl: "create_table" });
            }
            Op::DropTable { name } => {
                let ti = self.table(name).ok_or("no such table")?;
                let tn = self.tables[ti].name.clone();
                self.tables.remove(ti);
                self.indexes.retain(|i| i.table != tn);
            }
            Op::CreateIndex { name, table, cols, unique } => {
                if self.indexes.iter().any(|i| i.name == up(name)) {
                    return Err("index exists");
                }
                let ti = self.table(table).ok_or("no such table")?;
                for c in cols {
                    self.col(ti, c).ok_or("no such column")?;
                }
                if *unique {
                    let ci: Vec<usize> = cols.iter().map(|c| self.col(ti, c).unwrap()).collect();
                    let rows = &self.tables[ti].rows;
                    for (i, r) in rows.iter().enumerate() {
                        for q in rows.iter().skip(i + 1) {
                            if ci.iter().all(|&c| r[c] != V::Null && r[c] == q[c]) {
                                return Err("duplicate keys");
                            }
                        }
                    }
                }
                self.indexes.push(MIndex { name: up(name), table: self.tables[ti].name.clone(), cols: cols.iter().map(|c| up(c)).collect(), unique: *unique });
                self.tables[ti].last_ddl = "create_index";
            }
            Op::DropIndex { name } => {
                let k = self.indexes.iter().position(|i| i.name == up(name)).ok_or("no such index")?;
                let tn = self.indexes[k].table.clone();
                self.indexes.remove(k);
                if let Some(ti) = self.table(&tn) {
                    self.tables[ti].last_ddl = "drop_index";
                }
            }
            Op::AddColumn { table, col, ty, default, .. } => {
                let ti = self.table(table).ok_or("no such table")?;
                if self.col(ti, col).is_some() {
                    return Err("column exists");
                }
                let t = &mut self.tables[ti];
                t.cols.push((up(col), ty.clone()));
                for r in t.rows.iter_mut() {
                    r.push(default.clone().unwrap_or(V::Null));
                }
                t.last_ddl = "add_column";
            }
            Op::DropColumn { table, col } => {
                let ti = self.table(table).ok_or("no such table")?;
                let ci = self.col(ti, col).ok_or("no such column")?;
                let t = &mut self.tables[ti];
                if (t.pk && ci == 0) || t.cols.len() <= 1 {
                    return Err("cannot drop");
                }
                // a column that a user-defined index mentions: dropping it must be refused (an index
                // over a column that no longer exists would describe an object that is gone)
                let (tn, cn) = (t.name.clone(), t.cols[ci].0.clone());
                if self.indexes.iter().any(|i| i.table == tn && i.cols.iter().any(|c| *c == cn)) {
                    return Err("indexed column");
                }
                let t = &mut self.tables[ti];
                t.cols.remove(ci);
                for r in t.rows.iter_mut() {
                    r.remove(ci);
                }
                t.last_ddl = "drop_column";
            }
            Op::RenameColumn { table, from, to, .. } => {
                let ti = self.table(table).ok_or("no such table")?;
                let ci = self.col(ti, from).ok_or("no such column")?;
                if self.col(ti, to).is_some() {
                    return Err("column exists");
                }
                let t = &mut self.tables[ti];
                t.cols[ci].0 = up(to);
                t.last_ddl = "rename_column";
            }
            Op::AddCheck { table, cname, col, min } => {
                let ti = self.table(table).ok_or("no such table")?;
                self.col(ti, col).ok_or("no such column")?;
                if self.tables[ti].checks.iter().any(|c| c.0 == up(cname)) {
                    return Err("constraint exists");
                }
                let t = &mut self.tables[ti];
                t.checks.push((up(cname), up(col), *min));
                t.last_ddl = "add_constraint";
            }
            Op::DropConstraint { table, cname } => {
                let ti = self.table(table).ok_or("no such table")?;
                let t = &mut self.tables[ti];
                let k = t.checks.iter().position(|c| c.0 == up(cname)).ok_or("no such constraint")?;
                t.checks.remove(k);
                t.last_ddl = "drop_constraint";
            }
            Op::Insert { table, rows } => {
                let ti = self.table(table).ok_or("no such table")?;
                let t = &mut self.tables[ti];
                for r in rows {
                    if r.len() != t.cols.len() {
                        return Err("arity");
                    }
                }
                t.rows.extend(rows.iter().cloned());
            }
            Op::Delete { table, col, v } => {
                let ti = self.table(table).ok_or("no such table")?;
                let ci = self.col(ti, col).ok_or("no such column")?;
                self.tables[ti].rows.retain(|r| !(r[ci] != V::Null && r[ci] == *v));
            }
            Op::Update { table, set_col, v, where_col, wv } => {
                let ti = self.table(table).ok_or("no such table")?;
                let si = self.col(ti, set_col).ok_or("no such column")?;
                let wi = self.col(ti, where_col).ok_or("no such column")?;
                for r in self.tables[ti].rows.iter_mut() {
                    if r[wi] != V::Null && r[wi] == *wv {
                        r[si] = v.clone();
                    }
                }
            }
        }
        Ok(())
    }
}

// ---------------------------------------------------------------------------------------------
// generator

const TNAMES: &[&str] = &["ta", "tb", "tc"];
const CNAMES: &[&str] = &["ca", "cb", "cc", "cd", "ce", "cf"];
const INAMES: &[&str] = &["ia", "ib", "ic"];
const WORDS: &[&str] = &["a", "b", "ab", "", "A"];

/// an identifier spelled in a random case variant (unquoted identifiers are case-insensitive)
fn spell(t: &mut Tape, n: &str, vary: bool) -> String {
    if !vary {
        return n.to_string();
    }
    match t.weighted(&[3, 1, 1]) {
        0 => n.to_string(),
        1 => n.to_uppercase(),
        _ => {
            let mut s = String::new();
            for (i, ch) in n.chars().enumerate() {
                if i % 2 == 0 {
                    s.extend(ch.to_uppercase());
                } else {
                    s.push(ch);
                }
            }
            s
        }
    }
}

fn gen_val(t: &mut Tape, ty: &ColTy, nullable: bool) -> V {
    if nullable && t.chance(1, 6) {
        return V::Null;
    }
    match ty {
        ColTy::Int => V::Int(*t.pick(&[1i64, 2, 3, 5, 8, 0])),
        _ => V::Varchar(t.pick(WORDS).to_string()),
    }
}

struct GenOpts {
    vary_case: bool,
    skip: Vec<&'static str>,
    invalid: bool,
    drop_indexed: bool,
}

fn gen_op(t: &mut Tape, m: &Model, next_key: &mut i64, o: &GenOpts) -> Option<Op> {
    let sp = |t: &mut Tape, n: &str| spell(t, &n.to_lowercase(), o.vary_case);
    let kind = t.weighted(&[4, 2, 3, 2, 3, 2, 2, 1, 1, 5, 2, 2]);
    let kinds = ["create_table", "drop_table", "create_index", "drop_index", "add_column", "drop_column", "rename_column", "add_constraint", "drop_constraint", "insert", "delete", "update"];
    if o.skip.contains(&kinds[kind]) {
        return None;
    }
    let invalid = o.invalid && t.chance(1, 12);
    let any_table = |t: &mut Tape| -> Option<usize> {
        if m.tables.is_empty() {
            None
        } else {
            Some(t.below(m.tables.len()))
        }
    };
    let free_col = |t: &mut Tape, ti: usize| -> Option<String> {
        let free: Vec<&&str> = CNAMES.iter().filter(|c| !m.tables[ti].cols.iter().any(|(n, _)| *n == c.to_uppercase())).collect();
        if free.is_empty() {
            None
        } else {
            Some(free[t.below(free.len())].to_string())
        }
    };
    let indexed = |ti: usize, c: &str| m.indexes.iter().any(|i| i.table == m.tables[ti].name && i.cols.iter().any(|x| x == c)) || m.tables[ti].checks.iter().any(|k| k.1 == c);
    match kinds[kind] {
        "create_table" => {
            let free: Vec<&&str> = TNAMES.iter().filter(|n| m.table(n).is_none()).collect();
            let name = if invalid && !m.tables.is_empty() {
                m.tables[t.below(m.tables.len())].name.clone()
            } else if free.is_empty() {
                return None;
            } else {
                free[t.below(free.len())].to_string()
            };
            let n = t.range(2, 4) as usize;
            let mut cols = Vec::new();
            for k in 0..n {
                let ty = if k == 0 { ColTy::Int } else { t.pick(&[ColTy::Int, ColTy::Varchar(12)]).clone() };
                cols.push((sp(t, CNAMES[k]), ty));
            }
            Some(Op::CreateTable { name: sp(t, &name), cols, pk: t.chance(1, 2) })
        }
        "drop_table" => {
            if invalid {
                let free: Vec<&&str> = TNAMES.iter().filter(|n| m.table(n).is_none()).collect();
                if free.is_empty() {
                    return None;
                }
                return Some(Op::DropTable { name: sp(t, free[0]) });
            }
            let ti = any_table(t)?;
            Some(Op::DropTable { name: sp(t, &m.tables[ti].name) })
        }
        "create_index" => {
            let ti = any_table(t)?;
            let free: Vec<&&str> = INAMES.iter().filter(|n| !m.indexes.iter().any(|i| i.name == n.to_uppercase())).collect();
            let name = if invalid && !m.indexes.is_empty() {
                m.indexes[t.below(m.indexes.len())].name.clone()
            } else if free.is_empty() {
                return None;
            } else {
                free[t.below(free.len())].to_string()
            };
            let tb = &m.tables[ti];
            let c0 = t.below(tb.cols.len());
            let mut cols = vec![sp(t, &tb.cols[c0].0)];
            if t.chance(1, 4) {
                let c1 = t.below(tb.cols.len());
                if c1 != c0 {
                    cols.push(sp(t, &tb.cols[c1].0));
                }
            }
            Some(Op::CreateIndex { name: sp(t, &name), table: sp(t, &tb.name), cols, unique: false })
        }
        "drop_index" => {
            if invalid {
                let free: Vec<&&str> = INAMES.iter().filter(|n| !m.indexes.iter().any(|i| i.name == n.to_uppercase())).collect();
                if free.is_empty() {
                    return None;
                }
                return Some(Op::DropIndex { name: sp(t, free[0]) });
            }
            if m.indexes.is_empty() {
                return None;
            }
            let k = t.below(m.indexes.len());
            Some(Op::DropIndex { name: sp(t, &m.indexes[k].name) })
        }
        "add_column" => {
            let ti = any_table(t)?;
            let col = if invalid { m.tables[ti].cols[t.below(m.tables[ti].cols.len())].0.clone() } else { free_col(t, ti)? };
            let ty = t.pick(&[ColTy::Int, ColTy::Varchar(12)]).clone();
            let default = if t.chance(1, 3) { Some(gen_val(t, &ty, false)) } else { None };
            Some(Op::AddColumn { table: sp(t, &m.tables[ti].name), col: sp(t, &col), ty, default, keyword: !t.chance(1, 4) })
        }
        "drop_column" => {
            let ti = any_table(t)?;
            let tb = &m.tables[ti];
            let cands: Vec<usize> = (0..tb.cols.len()).filter(|&c| !(tb.pk && c == 0) && (o.drop_indexed || !indexed(ti, &tb.cols[c].0))).collect();
            let _ = &indexed;
            if cands.is_empty() || tb.cols.len() <= 1 {
                return None;
            }
            let c = cands[t.below(cands.len())];
            // a column that a CHECK constraint mentions is never dropped (no defined outcome); a column
            // that an index mentions is (the statement must then be refused)
            if tb.checks.iter().any(|k| k.1 == tb.cols[c].0) {
                return None;
            }
            Some(Op::DropColumn { table: sp(t, &tb.name), col: sp(t, &tb.cols[c].0) })
        }
        "rename_column" => {
            let ti = any_table(t)?;
            let tb = &m.tables[ti];
            let cands: Vec<usize> = (0..tb.cols.len()).filter(|&c| !(tb.pk && c == 0) && !indexed(ti, &tb.cols[c].0)).collect();
            if cands.is_empty() {
                return None;
            }
            let c = cands[t.below(cands.len())];
            let to = free_col(t, ti)?;
            Some(Op::RenameColumn { table: sp(t, &tb.name), from: sp(t, &tb.cols[c].0), to: sp(t, &to), ty: tb.cols[c].1.clone() })
        }
        "add_constraint" => {
            let ti = any_table(t)?;
            let tb = &m.tables[ti];
            let ints: Vec<usize> = (0..tb.cols.len()).filter(|&c| tb.cols[c].1 == ColTy::Int).collect();
            if ints.is_empty() || tb.checks.len() >= 2 {
                return None;
            }
            let c = ints[t.below(ints.len())];
            let cname = format!("ck{}", tb.checks.len());
            // a bound every present and future generated value satisfies
            Some(Op::AddCheck { table: sp(t, &tb.name), cname: sp(t, &cname), col: sp(t, &tb.cols[c].0), min: -5 })
        }
        "drop_constraint" => {
            let ti = any_table(t)?;
            let tb = &m.tables[ti];
            if tb.checks.is_empty() {
                return None;
            }
            let k = t.below(tb.checks.len());
            Some(Op::DropConstraint { table: sp(t, &tb.name), cname: sp(t, &tb.checks[k].0) })
        }
        "insert" => {
            let ti = any_table(t)?;
            let tb = &m.tables[ti];
            let n = *t.pick(&[1usize, 2, 3]);
            let mut rows = Vec::new();
            for _ in 0..n {
                let mut r = Vec::new();
                for (c, (_, ty)) in tb.cols.iter().enumerate() {
                    if c == 0 && tb.cols[0].1 == ColTy::Int {
                        // first column: fresh ascending key (it may be the PRIMARY KEY)
                        r.push(V::Int(*next_key));
                        *next_key += 1;
                    } else {
                        r.push(gen_val(t, ty, true));
                    }
                }
                rows.push(r);
            }
            Some(Op::Insert { table: sp(t, &tb.name), rows })
        }
        "delete" => {
            let ti = any_table(t)?;
            let tb = &m.tables[ti];
            let c = t.below(tb.cols.len());
            let v = if !tb.rows.is_empty() && t.chance(3, 4) { tb.rows[t.below(tb.rows.len())][c].clone() } else { gen_val(t, &tb.cols[c].1, false) };
            if v == V::Null {
                return None;
            }
            Some(Op::Delete { table: sp(t, &tb.name), col: sp(t, &tb.cols[c].0), v })
        }
        _ => {
            let ti = any_table(t)?;
            let tb = &m.tables[ti];
            let cands: Vec<usize> = (0..tb.cols.len()).filter(|&c| c != 0).collect();
            if cands.is_empty() {
                return None;
            }
            let s = cands[t.below(cands.len())];
            let w = t.below(tb.cols.len());
            let wv = if !tb.rows.is_empty() && t.chance(3, 4) { tb.rows[t.below(tb.rows.len())][w].clone() } else { gen_val(t, &tb.cols[w].1, false) };
            if wv == V::Null {
                return None;
            }
            let v = gen_val(t, &tb.cols[s].1, true);
            Some(Op::Update { table: sp(t, &tb.name), set_col: sp(t, &tb.cols[s].0), v, where_col: sp(t, &tb.cols[w].0), wv })
        }
    }
}

// ---------------------------------------------------------------------------------------------
// check

#[derive(Clone, Debug, Serialize, Deserialize)]
pub struct C33Case {
    pub ops: Vec<Op>,
    #[serde(default)]
    pub scenario: Option<vcore::scenario::Scenario>,
}

pub struct C33;

fn crows(rows: &[Vec<V>]) -> Vec<CRow> {
    rows.iter().map(|r| r.iter().map(|v| CV::from_sql(&v.to_sql())).collect()).collect()
}

fn strip(n: &str) -> String {
    n.rsplit('.').next().unwrap_or(n).to_uppercase()
}

/// Compare everything the property lists; returns (relation, table the deviation is about, detail)
fn compare(db: &Database, m: &Model) -> Option<(&'static str, Option<usize>, String)> {
    let mut listed: Vec<String> = db.list_tables().iter().map(|n| strip(n)).collect();
    listed.sort();
    let mut want: Vec<String> = m.tables.iter().map(|t| t.name.clone()).collect();
    want.sort();
    if listed != want {
        return Some(("table_listing", None, format!("the catalog lists tables {:?}, the history defines {:?}", listed, want)));
    }
    for (ti, t) in m.tables.iter().enumerate() {
        let names: Vec<String> = t.cols.iter().map(|c| c.0.clone()).collect();
        match db.catalog.get_table(&t.name) {
            None => return Some(("catalog_columns", Some(ti), format!("table {} is listed but the catalog has no schema for it", t.name))),
            Some(s) => {
                let have: Vec<String> = s.columns.iter().map(|c| c.name.to_uppercase()).collect();
                if have != names {
                    return Some(("catalog_columns", Some(ti), format!("catalog schema of {} has columns {:?}, declared are {:?}", t.name, have, names)));
                }
            }
        }
        match db.get_table(&t.name) {
            None => return Some(("storage_table", Some(ti), format!("table {} is listed in the catalog but has no stored table", t.name))),
            Some(st) => {
                let have: Vec<String> = st.schema.columns.iter().map(|c| c.name.to_uppercase()).collect();
                if have != names {
                    return Some(("storage_columns", Some(ti), format!("stored table {} has columns {:?}, declared are {:?}", t.name, have, names)));
                }
                let rows: Vec<CRow> = st.scan().iter().map(engine::canon_row).collect();
                if !vcore::val::multiset_eq(&rows, &crows(&t.rows), 0.0) {
                    return Some(("stored_rows", Some(ti), format!("stored rows of {} differ:\nexpected:\n{}stored:\n{}", t.name, vcore::val::show_rows(&crows(&t.rows), 12), vcore::val::show_rows(&rows, 12))));
                }
            }
        }
        let want_rows = crows(&t.rows);
        match engine::query(db, &format!("SELECT * FROM {}", t.name)) {
            Err(e) => return Some(("select_star", Some(ti), format!("SELECT * FROM {} fails: {}", t.name, e.text()))),
            Ok(r) => {
                if !vcore::val::multiset_eq(&r, &want_rows, 0.0) {
                    return Some(("select_star", Some(ti), format!("SELECT * FROM {}:\nexpected:\n{}got:\n{}", t.name, vcore::val::show_rows(&want_rows, 12), vcore::val::show_rows(&r, 12))));
                }
            }
        }
        let q = format!("SELECT {} FROM {}", names.join(", "), t.name);
        match engine::query(db, &q) {
            Err(e) => return Some(("select_columns", Some(ti), format!("`{}` fails: {}", q, e.text()))),
            Ok(r) => {
                if !vcore::val::multiset_eq(&r, &want_rows, 0.0) {
                    return Some(("select_columns", Some(ti), format!("`{}`:\nexpected:\n{}got:\n{}", q, vcore::val::show_rows(&want_rows, 12), vcore::val::show_rows(&r, 12))));
                }
            }
        }
    }
    let mut il: Vec<String> = db.list_indexes().iter().map(|n| strip(n)).collect();
    il.sort();
    let mut iw: Vec<String> = m.indexes.iter().map(|i| i.name.clone()).collect();
    iw.sort();
    if il != iw {
        return Some(("index_listing", None, format!("the index registry lists {:?}, the history defines {:?}", il, iw)));
    }
    for ix in &m.indexes {
        let ti = m.table(&ix.table).unwrap();
        let t = &m.tables[ti];
        let ci = m.col(ti, &ix.cols[0]).unwrap();
        let mut vals: Vec<V> = Vec::new();
        for r in &t.rows {
            if r[ci] != V::Null && !vals.contains(&r[ci]) && vals.len() < 2 {
                vals.push(r[ci].clone());
            }
        }
        vals.push(match t.cols[ci].1 {
            ColTy::Int => V::Int(2),
            _ => V::Varchar("a".into()),
        });
        for v in vals {
            let q = format!("SELECT * FROM {} WHERE {} = {}", t.name, ix.cols[0], vcore::sql::ir::bare_lit(&v, Dialect::Vibe));
            let want: Vec<Vec<V>> = t.rows.iter().filter(|r| r[ci] == v).cloned().collect();
            match engine::query(db, &q) {
                Err(e) => return Some(("index_probe", Some(ti), format!("`{}` (column indexed by {}) fails: {}", q, ix.name, e.text()))),
                Ok(r) => {
                    if !vcore::val::multiset_eq(&r, &crows(&want), 0.0) {
                        return Some(("index_probe", Some(ti), format!("`{}` (column indexed by {}):\nexpected:\n{}got:\n{}", q, ix.name, vcore::val::show_rows(&crows(&want), 12), vcore::val::show_rows(&r, 12))));
                    }
                }
            }
        }
        let _ = ix.unique;
    }
    None
}

impl Check for C33 {
    type Case = C33Case;
    fn id(&self) -> &'static str {
        "C33"
    }
    fn rule(&self) -> String {
        "histories of 3-24 statements over table names {ta,tb,tc}, column names {ca..cf} and index names {ia,ib,ic} (heavy name re-use), each identifier spelled in a random case variant: CREATE TABLE (2-4 INTEGER/VARCHAR columns, optional PRIMARY KEY), DROP TABLE, CREATE INDEX (1-2 columns), DROP INDEX, \
         ALTER TABLE ADD [COLUMN] (optional DEFAULT), DROP COLUMN (never a column an index or constraint mentions), CHANGE COLUMN old new (rename), ADD CONSTRAINT .. CHECK, DROP CONSTRAINT, INSERT (1-3 rows, full arity of the current column list), DELETE, UPDATE; 1 in 12 statements is invalid by construction (existing/missing table, index or column). \
         Oracle (model of tables, columns, rows and indexes in the harness), after every statement: valid statements succeed and invalid ones fail; list_tables equals the model's tables; for every table the catalog schema and the stored table have the declared column names, the stored rows, SELECT * and SELECT <declared columns> equal the model's rows (new columns NULL or DEFAULT, retained columns unchanged); \
         list_indexes equals the model's indexes (dropping a table drops its indexes); for every index `WHERE first_col = v` equals the model's filter (no stale entries, also after re-creating a table or index under a used name). \
         Non-trivial = the history contains an ALTER TABLE or a DROP followed by a re-CREATE of the same name, and at least one row existed at that point. Distinct = hash of the case."
            .into()
    }
    fn assumptions(&self) -> Vec<String> {
        vec![
            "RENAME TABLE, MODIFY COLUMN and dropping or renaming a column that an index or constraint mentions are outside the generated domain: the property statement does not define their outcome".into(),
            "only unquoted identifiers (case-insensitive); default session schema".into(),
            "CHECK constraints added by ALTER are chosen so that every generated value satisfies them: enforcement is C10's subject, here only the schema bookkeeping is compared".into(),
        ]
    }
    fn cases(&self, tier: Tier) -> u64 {
        match tier {
            Tier::Quick => 40_000,
            Tier::Thorough => 600_000,
        }
    }
    fn tape_len(&self, _t: Tier) -> usize {
        900
    }
    fn build(&self, t: &mut Tape, g: &GenCfg) -> C33Case {
        let mut skip: Vec<&'static str> = Vec::new();
        for k in ["add_column", "drop_column", "rename_column", "add_constraint", "drop_constraint", "drop_table", "drop_index", "create_index"] {
            if g.avoid_known && g.known_open.iter().any(|s| s.ends_with(&format!(".after_{}", k))) {
                skip.push(k);
            }
        }
        let o = GenOpts { vary_case: !t.chance(1, 4), skip, invalid: true, drop_indexed: t.chance(1, 3) };
        let mut m = Model::default();
        let mut ops = Vec::new();
        let mut nk = 1i64;
        // start with a table and some rows so that ALTERs have data to preserve
        let n = t.range(3, 24) as usize;
        let mut tries = 0;
        while ops.len() < n && tries < 4 * n {
            tries += 1;
            let op = if ops.is_empty() {
                Some(Op::CreateTable { name: "ta".into(), cols: vec![("ca".into(), ColTy::Int), ("cb".into(), t.pick(&[ColTy::Int, ColTy::Varchar(12)]).clone()), ("cc".into(), ColTy::Varchar(12))], pk: t.chance(1, 2) })
            } else {
                gen_op(t, &m, &mut nk, &o)
            };
            if let Some(op) = op {
                let _ = m.apply(&op);
                ops.push(op);
            }
        }
        C33Case { ops, scenario: None }
    }
    fn render(&self, c: &C33Case) -> String {
        if let Some(sc) = &c.scenario {
            return sc.steps.iter().map(|s| s.sql.clone()).collect::<Vec<_>>().join(";\n");
        }
        c.ops.iter().map(|o| o.sql()).collect::<Vec<_>>().join(";\n")
    }
    fn run(&self, case: &C33Case, obs: &mut Obs) -> Verdict {
        if let Some(sc) = &case.scenario {
            obs.nontrivial = true;
            obs.class("scenario_regression_input");
            return match vcore::scenario::run(sc) {
                Ok(()) => Verdict::Pass,
                Err(d) => Verdict::fail(format!("c33.scenario.{}", sc.name), d),
            };
        }
        let mut db = Database::new();
        let mut m = Model::default();
        let mut log: Vec<String> = Vec::new();
        let mut dropped: Vec<String> = Vec::new();
        let mut nontrivial = false;
        let mut last_ddl_any: &'static str = "create_table";
        macro_rules! fail {
            ($sig:expr, $detail:expr) => {{
                let sig: String = $sig;
                if vcore::kf::is_open_global(&sig) {
                    if !obs.known_hits.contains(&sig) {
                        obs.known_hits.push(sig);
                    }
                    obs.nontrivial = true;
                    return Verdict::Pass;
                } else {
                    return Verdict::fail(sig, format!("{}\n--- history ---\n{}", $detail, log.join(";\n")));
                }
            }};
        }
        for op in &case.ops {
            let sql = op.sql();
            log.push(sql.clone());
            obs.sub_evals += 1;
            let before = m.clone();
            let valid = m.apply(op);
            let r = match vcore::runner::catch(|| engine::exec(&mut db, &sql)) {
                Ok(Ok(_)) => Ok(()),
                Ok(Err(e)) => Err(e.text()),
                Err(p) => Err(format!("PANIC {}", p)),
            };
            // the DDL statement that most plausibly explains a deviation: this one if it is DDL,
            // otherwise the last DDL on the table the statement touches
            let tname = match op {
                Op::Insert { table, .. } | Op::Delete { table, .. } | Op::Update { table, .. } => Some(table.clone()),
                _ => None,
            };
            let trig: &'static str = if op.is_ddl() {
                op.kind()
            } else {
                tname.as_ref().and_then(|n| before.table(n)).map(|ti| before.tables[ti].last_ddl).unwrap_or(last_ddl_any)
            };
            match (&valid, &r) {
                (Ok(()), Err(e)) => {
                    fail!(format!("c33.rejects_valid.{}.after_{}", op.kind(), trig), format!("`{}` is valid for the schema the history defines but failed: {}", sql, e));
                }
                (Err(why), Ok(())) => {
                    fail!(format!("c33.accepts_invalid.{}.{}", op.kind(), why.replace(' ', "_")), format!("`{}` must be rejected ({}) but succeeded", sql, why));
                }
                (Err(_), Err(_)) => {
                    obs.class("invalid_statement_rejected");
                }
                (Ok(()), Ok(())) => {
                    if op.is_ddl() {
                        last_ddl_any = op.kind();
                    }
                    match op {
                        Op::DropTable { name } => dropped.push(up(name)),
                        Op::DropIndex { name } => dropped.push(format!("#{}", up(name))),
                        Op::CreateTable { name, .. } if dropped.contains(&up(name)) => {
                            obs.class("recreate_table");
                            nontrivial = true;
                        }
                        Op::CreateIndex { name, .. } if dropped.contains(&format!("#{}", up(name))) => {
                            obs.class("recreate_index");
                        }
                        Op::AddColumn { table, .. } | Op::DropColumn { table, .. } | Op::RenameColumn { table, .. } | Op::AddCheck { table, .. } | Op::DropConstraint { table, .. } => {
                            obs.class(&format!("alter:{}", op.kind()));
                            if let Some(ti) = m.table(table) {
                                if !m.tables[ti].rows.is_empty() {
                                    nontrivial = true;
                                }
                            }
                        }
                        _ => {}
                    }
                }
            }
            if let Some((rel, ti, d)) = compare(&db, &m) {
                let trig2: &'static str = if op.is_ddl() { op.kind() } else { ti.map(|i| m.tables[i].last_ddl).unwrap_or(trig) };
                fail!(format!("c33.{}.after_{}", rel, trig2), format!("after `{}`: {}", sql, d));
            }
        }
        obs.nontrivial = nontrivial;
        Verdict::Pass
    }
}
