//! C08 — ORDER BY, LIMIT/OFFSET and DISTINCT return correct sequences.

use crate::agg::{eval, gen_table, holds, AExpr, APred, ATable, AggGenCfg, MV};
use serde::{Deserialize, Serialize};
use vcore::engine;
use vcore::sql::ir::{BinOp, ColTy};
use vcore::val::{show_rows, CRow, CV, V};
use vcore::{Check, GenCfg, Obs, Tape, Tier, Verdict};

pub struct C08;

#[derive(Clone, Copy, Debug, PartialEq, Eq, Serialize, Deserialize)]
pub enum KeyForm {
    Position,
    Alias,
    Expr,
}

#[derive(Clone, Debug, Serialize, Deserialize)]
pub struct Case {
    pub table: ATable,
    /// (column index, descending)
    pub index: Vec<(usize, bool)>,
    /// select items, all aliased c0..cN
    pub items: Vec<AExpr>,
    /// (item index, how the key is written, descending)
    pub keys: Vec<(usize, KeyForm, bool)>,
    pub distinct: bool,
    pub where_: Option<APred>,
    pub limit: Option<u64>,
    pub offset: Option<u64>,
}

fn to_cv(m: &MV) -> CV {
    match m {
        MV::Null => CV::Null,
        MV::I(i) => CV::Int(*i),
        MV::F(f) => CV::F(*f),
        MV::S(s) => CV::S(s.clone()),
    }
}

/// documented order: NULLs last in both directions
fn key_cmp(a: &CRow, b: &CRow, keys: &[(usize, KeyForm, bool)]) -> std::cmp::Ordering {
    use std::cmp::Ordering::*;
    for (i, _, desc) in keys {
        let (x, y) = (&a[*i], &b[*i]);
        let c = match (matches!(x, CV::Null), matches!(y, CV::Null)) {
            (true, true) => Equal,
            (true, false) => Greater,
            (false, true) => Less,
            _ => {
                let c = x.sort_cmp(y);
                if *desc {
                    c.reverse()
                } else {
                    c
                }
            }
        };
        if c != Equal {
            return c;
        }
    }
    Equal
}

fn keys_equal(a: &CRow, b: &CRow, keys: &[(usize, KeyForm, bool)]) -> bool {
    key_cmp(a, b, keys) == std::cmp::Ordering::Equal
}

impl Case {
    fn sql(&self, ordered: bool) -> String {
        let t = &self.table;
        let items: Vec<String> = self.items.iter().enumerate().map(|(i, e)| format!("{} AS c{}", e.render(t), i)).collect();
        let mut s = format!("SELECT {}{} FROM t", if self.distinct { "DISTINCT " } else { "" }, items.join(", "));
        if let Some(w) = &self.where_ {
            s.push_str(&format!(" WHERE {}", w.render(t)));
        }
        if ordered {
            if !self.keys.is_empty() {
                let ks: Vec<String> = self
                    .keys
                    .iter()
                    .map(|(i, form, desc)| {
                        let k = match form {
                            KeyForm::Position => format!("{}", i + 1),
                            KeyForm::Alias => format!("c{}", i),
                            KeyForm::Expr => self.items[*i].render(t),
                        };
                        format!("{} {}", k, if *desc { "DESC" } else { "ASC" })
                    })
                    .collect();
                s.push_str(&format!(" ORDER BY {}", ks.join(", ")));
            }
            if let Some(l) = self.limit {
                s.push_str(&format!(" LIMIT {}", l));
            }
            if let Some(o) = self.offset {
                s.push_str(&format!(" OFFSET {}", o));
            }
        }
        s
    }
    fn setup(&self) -> Vec<String> {
        let mut v = self.table.setup_sql();
        if !self.index.is_empty() {
            let cols: Vec<String> = self.index.iter().map(|(c, d)| format!("{} {}", self.table.cols[*c].0, if *d { "DESC" } else { "ASC" })).collect();
            v.push(format!("CREATE INDEX ix ON t ({})", cols.join(", ")));
        }
        v
    }
    /// the unordered result according to the executable definition
    fn model_rows(&self) -> Vec<CRow> {
        let mut out: Vec<CRow> = Vec::new();
        for r in &self.table.rows {
            if self.where_.as_ref().map(|w| holds(w, r) == Some(true)).unwrap_or(true) {
                let row: CRow = self.items.iter().map(|e| to_cv(&eval(e, r))).collect();
                if self.distinct && out.iter().any(|x| vcore::val::rows_same(x, &row, 0.0)) {
                    continue;
                }
                out.push(row);
            }
        }
        out
    }
}

impl Check for C08 {
    type Case = Case;
    fn id(&self) -> &'static str {
        "C08"
    }
    fn rule(&self) -> String {
        "one table (INTEGER / VARCHAR / f32-exact DOUBLE columns, 0-30 rows with ties and NULLs; thorough up to 300 rows), optional index on the leading ORDER BY columns (ASC/DESC), \
         1-4 select items (columns, -a, a+k, a*b), ORDER BY of 0-3 keys written as position / alias / repeated expression with ASC/DESC, LIMIT in {0,1,n-1,n,n+5}, OFFSET in {0,1,n,n+1}, DISTINCT, optional WHERE. \
         Oracle: the unordered result U is computed by the harness model from the table; the engine's answer must (a) have non-decreasing keys under the documented order (NULLs last in both directions), \
         (b) have exactly the key sequence of sorted(U)[offset, offset+limit), (c) be a sub-multiset of U, with key groups that lie wholly inside the slice complete, (d) contain each distinct row once under DISTINCT. \
         Non-trivial = U has a tie or a NULL among the keys AND (an index is usable or LIMIT/OFFSET is given). Distinct = hash of the case."
            .into()
    }
    fn assumptions(&self) -> Vec<String> {
        vec!["NULL placement follows order.rs: NULLs sort last for ASC and DESC".into(), "ties may come in any order; only key sequences and group completeness are compared".into()]
    }
    fn cases(&self, tier: Tier) -> u64 {
        match tier {
            Tier::Quick => 150_000,
            Tier::Thorough => 4_000_000,
        }
    }
    fn tape_len(&self, _t: Tier) -> usize {
        600
    }
    fn build(&self, t: &mut Tape, cfg: &GenCfg) -> Case {
        let c = AggGenCfg {
            max_rows: if cfg.tier == Tier::Thorough && t.chance(1, 10) { 300 } else { 30 },
            gate_only: false,
            allow_having: false,
            allow_limit: false,
            allow_strings: true,
            allow_nulls: true,
            allow_empty: true,
            allow_arith_args: false,
            allow_distinct: false,
            big_tables: 0,
            exact_floats: true,
        };
        let table = gen_table(t, &c);
        let ncols = table.cols.len();
        let numeric: Vec<usize> = (0..ncols).filter(|&i| matches!(table.cols[i].1, ColTy::Int)).collect();
        let nitems = t.range(1, 4) as usize;
        let mut items = Vec::new();
        for _ in 0..nitems {
            let e = match t.weighted(&[6, 1, 1, 1]) {
                0 => AExpr::Col(t.below(ncols)),
                1 => AExpr::Bin(Box::new(AExpr::Lit(V::Int(0))), BinOp::Sub, Box::new(AExpr::Col(numeric[t.below(numeric.len())]))),
                2 => AExpr::Bin(Box::new(AExpr::Col(numeric[t.below(numeric.len())])), BinOp::Add, Box::new(AExpr::Lit(V::Int(t.range(1, 3))))),
                _ => AExpr::Bin(Box::new(AExpr::Col(numeric[t.below(numeric.len())])), BinOp::Mul, Box::new(AExpr::Col(numeric[t.below(numeric.len())]))),
            };
            items.push(e);
        }
        let nkeys = t.weighted(&[1, 5, 3, 1]);
        let mut keys = Vec::new();
        for _ in 0..nkeys {
            let i = t.below(items.len());
            if keys.iter().any(|(j, _, _)| *j == i) {
                continue;
            }
            let form = *t.pick(&[KeyForm::Expr, KeyForm::Position, KeyForm::Alias]);
            keys.push((i, form, t.chance(1, 2)));
        }
        // index on the leading plain-column keys (the shape the ORDER BY optimisation looks for)
        let mut index = Vec::new();
        if t.chance(1, 2) && !cfg.avoiding("c08.trigger.index_order") && !cfg.avoiding("c08.trigger.index_where") {
            for (i, _, desc) in &keys {
                if let AExpr::Col(c) = &items[*i] {
                    if !index.iter().any(|(x, _)| x == c) {
                        // mostly the same direction as requested, sometimes the opposite
                        index.push((*c, if t.chance(1, 5) { !*desc } else { *desc }));
                    }
                } else {
                    break;
                }
            }
            if index.is_empty() && t.chance(1, 2) {
                index.push((t.below(ncols), t.chance(1, 2)));
            }
        }
        let distinct = t.chance(1, 5);
        let where_ = if t.chance(1, 3) { Some(crate::agg::gen_where(t, &table, false, true)) } else { None };
        let n = table.rows.len() as u64;
        let limit = if t.chance(1, 2) { Some(*t.pick(&[1u64, 0, n.saturating_sub(1), n, n + 5, 2, 3])) } else { None };
        let offset = if t.chance(1, 3) { Some(*t.pick(&[1u64, 0, n, n + 1, 2])) } else { None };
        Case { table, index, items, keys, distinct, where_, limit, offset }
    }
    fn render(&self, c: &Case) -> String {
        let mut s: Vec<String> = c.setup().iter().map(|x| vcore::runner::truncate(x, 1500)).collect();
        s.push(c.sql(true));
        s.join(";\n")
    }
    fn run(&self, case: &Case, obs: &mut Obs) -> Verdict {
        let mut db = vibesql_storage::Database::new();
        for st in case.setup() {
            if let Err(e) = engine::exec(&mut db, &st) {
                return Verdict::Harness(format!("vibesql rejected setup statement `{}`: {}", vcore::runner::truncate(&st, 300), e.text()));
            }
        }
        let keys = &case.keys;
        let mut u = case.model_rows();
        // features for classification
        let key_has_null = u.iter().any(|r| keys.iter().any(|(i, _, _)| matches!(r[*i], CV::Null)));
        let index_usable = !case.index.is_empty()
            && keys.first().map(|(i, _, _)| matches!(&case.items[*i], AExpr::Col(c) if *c == case.index[0].0)).unwrap_or(false);
        let index_on_where = !case.index.is_empty() && case.where_.is_some();
        if index_usable {
            obs.class("index_on_leading_key");
        }
        if case.distinct {
            obs.class("distinct");
        }
        if case.limit.is_some() || case.offset.is_some() {
            obs.class("limit_offset");
        }
        if keys.is_empty() {
            obs.class("no_order_by");
        }
        let feat = {
            let mut f: Vec<&str> = Vec::new();
            if index_usable {
                f.push("index_order");
            } else if index_on_where {
                f.push("index_where");
            }
            if key_has_null {
                f.push("null_key");
            }
            if case.distinct {
                f.push("distinct");
            }
            if keys.iter().any(|(_, form, _)| *form == KeyForm::Position) {
                f.push("position");
            }
            if f.is_empty() {
                "plain".to_string()
            } else {
                f.join("+")
            }
        };
        let sql = case.sql(true);
        let got = match engine::query(&db, &sql) {
            Ok(g) => g,
            Err(e) => {
                let sig = if index_usable {
                    "c08.trigger.index_order".to_string()
                } else if index_on_where {
                    "c08.trigger.index_where".to_string()
                } else {
                    format!("c08.error.{}.{}", e.kind(), feat)
                };
                return Verdict::fail(sig, format!("{}\n{}", sql, e.text()));
            }
        };
        // expected slice of key sequence
        u.sort_by(|a, b| key_cmp(a, b, keys));
        let off = case.offset.unwrap_or(0) as usize;
        let lim = case.limit.map(|l| l as usize).unwrap_or(usize::MAX);
        let slice: Vec<CRow> = u.iter().skip(off).take(lim).cloned().collect();
        let has_tie = u.windows(2).any(|w| keys_equal(&w[0], &w[1], keys)) && !keys.is_empty();
        obs.nontrivial = (has_tie || key_has_null) && (index_usable || case.limit.is_some() || case.offset.is_some()) && !u.is_empty();
        let fail = |shape: &str, why: String| {
            // one signature per recorded root-cause region: index-provided order / index-driven WHERE
            let sig = if index_usable {
                "c08.trigger.index_order".to_string()
            } else if index_on_where {
                "c08.trigger.index_where".to_string()
            } else {
                format!("c08.{}.{}", shape, feat)
            };
            Verdict::fail(
                sig,
                format!("{}\n{}\nexpected slice of sorted(U) (ties in any order):\n{}got:\n{}", sql, why, show_rows(&slice, 40), show_rows(&got, 40)),
            )
        };
        // (c) length
        if got.len() != slice.len() {
            return fail("length", format!("result has {} rows, expected {} (|U|={}, offset {:?}, limit {:?})", got.len(), slice.len(), u.len(), case.offset, case.limit));
        }
        // (a) sorted
        for w in got.windows(2) {
            if key_cmp(&w[0], &w[1], keys) == std::cmp::Ordering::Greater {
                return fail("not_sorted", format!("row {:?} precedes {:?} against the requested order", w[0], w[1]));
            }
        }
        // (b) key sequence equals the slice's (only meaningful with ORDER BY)
        if !keys.is_empty() {
            for (g, s) in got.iter().zip(slice.iter()) {
                if !keys_equal(g, s, keys) {
                    return fail("wrong_slice", format!("key of result row {:?} differs from the key at the same position of sorted(U) {:?}", g, s));
                }
            }
        }
        // (c') sub-multiset of U, and complete groups
        let mut used = vec![false; u.len()];
        for g in &got {
            match (0..u.len()).find(|&j| !used[j] && vcore::val::rows_same(&u[j], g, 0.0)) {
                Some(j) => used[j] = true,
                None => return fail("row_not_in_u", format!("result row {:?} is not a row of the unordered result (or appears too often)", g)),
            }
        }
        if keys.is_empty() {
            // without ORDER BY and without LIMIT/OFFSET the result must be all of U
            if case.limit.is_none() && case.offset.is_none() && used.iter().any(|x| !x) {
                return fail("missing_rows", "rows of U are missing".into());
            }
        } else {
            // every key group that lies wholly inside the slice must be complete
            let n_in_slice = |r: &CRow| slice.iter().filter(|s| keys_equal(s, r, keys)).count();
            let n_in_u = |r: &CRow| u.iter().filter(|s| keys_equal(s, r, keys)).count();
            for (j, r) in u.iter().enumerate() {
                if n_in_slice(r) == n_in_u(r) && !used[j] {
                    return fail("incomplete_group", format!("row {:?} belongs to a key group that lies wholly inside the slice but is missing", r));
                }
            }
        }
        Verdict::Pass
    }
}
