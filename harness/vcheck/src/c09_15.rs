//! C09, C10, C11, C12, C15 — thin wrappers around the shared history runner (hist.rs),
//! differing in schema/statement emphasis and in which relation produces failures.

use crate::dml::DmlCfg;
use crate::hist::{gen_history, render, run_history, Focus, HCase};
use vcore::{Check, GenCfg, Obs, Tape, Tier, Verdict};

macro_rules! hist_check {
    ($name:ident, $id:literal, $focus:expr, $cfg:expr, $quick:expr, $thorough:expr, $maxst:expr, $rule:expr) => {
        pub struct $name;
        impl Check for $name {
            type Case = HCase;
            fn id(&self) -> &'static str {
                $id
            }
            fn rule(&self) -> String {
                $rule.into()
            }
            fn assumptions(&self) -> Vec<String> {
                vec![
                    "reference = executable model of statement effects in the harness (atomic statements, constraints checked on the final state, FK actions); a statement the model accepts but the engine rejects is allowed (row-at-a-time checking) provided it changed nothing".into(),
                    "deviations that belong to another property are counted (class other_property:*) and the model is re-synchronised with the engine".into(),
                ]
            }
            fn cases(&self, tier: Tier) -> u64 {
                match tier {
                    Tier::Quick => $quick,
                    Tier::Thorough => $thorough,
                }
            }
            fn replay_repeats(&self) -> usize {
                // referential actions walk the catalog's HashMap of tables: which child table is
                // handled first differs between executions
                8
            }
            fn tape_len(&self, _t: Tier) -> usize {
                1200
            }
            fn build(&self, t: &mut Tape, cfg: &GenCfg) -> HCase {
                let c: DmlCfg = $cfg(cfg);
                gen_history(t, &c, $maxst)
            }
            fn render(&self, c: &HCase) -> String {
                render(c)
            }
            fn run(&self, case: &HCase, obs: &mut Obs) -> Verdict {
                run_history(case, $focus, obs)
            }
        }
    };
}

fn base() -> DmlCfg {
    DmlCfg { tables: 1, pk: false, composite_pk: false, uniques: false, not_null: false, checks: false, fks: false, self_fk: false, user_indexes: false, unique_indexes: false, max_rows: 10, key_updates: true, inline_fk: false, setnull_on_notnull: true, two_fks_same_parent: true, replace: false, odku: false }
}

hist_check!(
    C09,
    "C09",
    Focus::C09,
    |_g: &GenCfg| DmlCfg { pk: true, composite_pk: true, ..base() },
    400_000,
    10_000_000,
    12,
    "one table (INTEGER key column + INTEGER/DOUBLE/VARCHAR columns, optional single/compound PRIMARY KEY), loaded by multi-row INSERTs, then 1-12 statements: INSERT (1-5 rows), UPDATE with 1-2 assignments \
     (literals, a = a + 1, a = b using pre-update values, key updates), DELETE, TRUNCATE, INSERT..SELECT; WHERE from comparisons (both orientations), BETWEEN, IN lists, IS NULL, AND/OR/NOT and the fast-path shapes pk = literal / literal = pk. \
     Oracle: after every successful statement the table equals the model's (rows selected by the three-valued WHERE, SET evaluated on pre-update values) and the reported count equals the model's. \
     Non-trivial = some statement affected >= 1 row and the history has >= 3 statements. Distinct = hash of the case."
);

hist_check!(
    C10,
    "C10",
    Focus::C10,
    |g: &GenCfg| DmlCfg { tables: 2, pk: true, composite_pk: true, uniques: true, not_null: true, checks: true, user_indexes: true, unique_indexes: true, replace: !(g.avoid_known && g.known_open.iter().any(|k| k.ends_with(".after_replace"))), odku: !(g.avoid_known && g.known_open.iter().any(|k| k.ends_with(".after_upsert"))), ..base() },
    400_000,
    10_000_000,
    14,
    "1-2 tables with PRIMARY KEY (1-2 columns), UNIQUE columns, UNIQUE indexes, NOT NULL and CHECK (col op literal); histories of ascending-key multi-row INSERTs (arming the append-mode shortcut) with occasional duplicates of earlier keys, \
     UPDATEs of key columns to constants / k + 1 / other columns, DELETE, TRUNCATE. Oracle: (a) after every statement, successful or not, the engine's rows satisfy every declared constraint (validator in the harness); \
     (b) a statement whose final state would violate a constraint according to the model must be rejected. Non-trivial = a rejection or an effective statement occurred in a history of >= 3 statements. Distinct = hash of the case."
);

hist_check!(
    C11,
    "C11",
    Focus::C11,
    |g: &GenCfg| DmlCfg { tables: 3, pk: true, composite_pk: true, uniques: true, not_null: true, checks: true, fks: true, user_indexes: true, unique_indexes: true, setnull_on_notnull: !g.avoiding("c11.changed_on_error.update.not_null") && !g.avoiding("c11.changed_on_error.delete.not_null"), ..base() },
    400_000,
    10_000_000,
    14,
    "schemas as C10 plus table-level FOREIGN KEYs; multi-row statements in which a later row violates NOT NULL / PRIMARY KEY / UNIQUE / CHECK / FOREIGN KEY, UPDATEs whose k-th candidate violates, parent DELETEs restricted after earlier cascades. \
     Oracle: whenever a statement returns an error, every table must equal its contents before the statement (compared with the model's pre-state as multisets). Non-trivial = at least one statement was rejected in a history of >= 3 statements."
);

hist_check!(
    C12,
    "C12",
    Focus::C12,
    |g: &GenCfg| DmlCfg { tables: 3, pk: true, fks: true, self_fk: !(g.avoid_known && g.known_open.iter().any(|k| k.contains("self_reference"))), not_null: true, inline_fk: true, two_fks_same_parent: !(g.avoid_known && g.known_open.iter().any(|k| k.contains("two_fks_same_parent"))), setnull_on_notnull: !g.avoiding("c12.orphan.after_failed_update") && !g.avoiding("c12.orphan.after_failed_delete"), ..base() },
    400_000,
    10_000_000,
    14,
    "parent / child / grandchild and self-referencing tables with table-level FOREIGN KEY ... ON DELETE / ON UPDATE {CASCADE, SET NULL, RESTRICT, NO ACTION}, NULL-able FK columns; histories of INSERT / UPDATE (child FK and parent key) / DELETE (multi-row) / TRUNCATE on all tables. \
     Oracle: after every statement no non-NULL child FK lacks a parent (scan); successful parent DELETE/UPDATE produce exactly the model's cascade / SET NULL closure in the child tables; statements the model says must be rejected (orphaning insert/update, restricted delete) return an error. \
     Non-trivial = an effective or rejected statement in a history of >= 3."
);

hist_check!(
    C15,
    "C15",
    Focus::C15,
    |g: &GenCfg| DmlCfg { tables: 2, pk: true, composite_pk: true, uniques: true, user_indexes: true, unique_indexes: true, fks: true, replace: !(g.avoid_known && g.known_open.iter().any(|k| k.ends_with(".after_replace"))), odku: !(g.avoid_known && g.known_open.iter().any(|k| k.ends_with(".after_upsert"))), ..base() },
    250_000,
    6_000_000,
    14,
    "schemas with PRIMARY KEY / UNIQUE constraints (hash indexes) and user-defined single/two-column indexes (some UNIQUE); histories of INSERT / UPDATE of indexed and key columns / position-shifting DELETE / TRUNCATE / INSERT..SELECT. \
     Oracle: after every statement the primary-key index, the unique-constraint indexes and every user index map (key -> sorted row positions) equal those of a clone on which Table::rebuild_indexes and Database::rebuild_indexes were called. \
     Non-trivial = an effective statement in a history of >= 3."
);
