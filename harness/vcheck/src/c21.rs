//! C21 — SQL value equality, ordering and hashing are mutually consistent.

use serde::{Deserialize, Serialize};
use std::cmp::Ordering;
use std::hash::{Hash, Hasher};
use vcore::val::{gen_any, gen_of_kind, V, INTERVALS};
use vcore::{Check, GenCfg, Obs, Tape, Tier, Verdict};
use vibesql_types::SqlValue;

pub struct C21;

#[derive(Clone, Debug, Serialize, Deserialize)]
pub enum Case {
    Laws { a: V, b: V, c: V },
}

fn hash_of(v: &SqlValue) -> u64 {
    let mut h = std::collections::hash_map::DefaultHasher::new();
    v.hash(&mut h);
    h.finish()
}

fn group(v: &V) -> &'static str {
    match v {
        V::Null => "null",
        V::Int(_) | V::Small(_) | V::Big(_) | V::Uns(_) => "int",
        V::Num(_) | V::Float(_) | V::Real(_) | V::Double(_) => "float",
        V::Char(_) | V::Varchar(_) => "str",
        V::Bool(_) => "bool",
        V::Date(..) | V::Time(..) | V::Ts(..) => "temporal",
        V::Interval(_) => "interval",
    }
}

fn feature(v: &V) -> &'static str {
    let f64f = |b: u64| {
        let f = f64::from_bits(b);
        if f.is_nan() {
            "nan"
        } else if f == 0.0 {
            "zero"
        } else if f.is_infinite() {
            "inf"
        } else {
            "num"
        }
    };
    match v {
        V::Num(b) | V::Double(b) => f64f(*b),
        V::Float(b) | V::Real(b) => f64f((f32::from_bits(*b) as f64).to_bits()),
        _ => "v",
    }
}

fn special(v: &V) -> bool {
    match v {
        V::Num(_) | V::Double(_) | V::Float(_) | V::Real(_) => feature(v) != "num",
        V::Int(i) | V::Big(i) => *i == i64::MAX || *i == i64::MIN,
        V::Uns(u) => *u > i64::MAX as u64,
        V::Interval(_) => true,
        _ => false,
    }
}

fn sig(law: &str, x: &V, y: &V) -> String {
    let same_kind = x.kind() == y.kind();
    format!("{}.{}{}.{}/{}", law, group(x), if same_kind { "" } else { ".mixed" }, feature(x), feature(y))
}

/// A value of the same kind that is likely equal to / adjacent to `v`.
fn twin(t: &mut Tape, v: &V) -> V {
    match v {
        V::Double(b) => V::Double(float_twin64(t, *b)),
        V::Num(b) => V::Num(float_twin64(t, *b)),
        V::Float(b) => V::Float(float_twin32(t, *b)),
        V::Real(b) => V::Real(float_twin32(t, *b)),
        V::Interval(_) => V::Interval(t.pick(INTERVALS).to_string()),
        V::Int(i) => V::Int(i.wrapping_add(t.range(-1, 1))),
        V::Big(i) => V::Big(i.wrapping_add(t.range(-1, 1))),
        V::Time(h, m, s, n) => V::Time(*h, *m, *s, if t.chance(1, 2) { *n } else { n.wrapping_add(1) % 1_000_000_000 }),
        other => {
            if t.chance(1, 2) {
                other.clone()
            } else {
                gen_of_kind(t, other.kind())
            }
        }
    }
}
fn float_twin64(t: &mut Tape, b: u64) -> u64 {
    let f = f64::from_bits(b);
    match t.below(4) {
        0 => b,
        1 => b ^ 0x8000000000000000,
        2 if f.is_nan() => b ^ 1,
        2 => b.wrapping_add(1),
        _ => *t.pick(vcore::val::F64_SPECIALS),
    }
}
fn float_twin32(t: &mut Tape, b: u32) -> u32 {
    let f = f32::from_bits(b);
    match t.below(4) {
        0 => b,
        1 => b ^ 0x80000000,
        2 if f.is_nan() => b ^ 1,
        2 => b.wrapping_add(1),
        _ => *t.pick(vcore::val::F32_SPECIALS),
    }
}

impl Check for C21 {
    type Case = Case;
    fn id(&self) -> &'static str {
        "C21"
    }
    fn rule(&self) -> String {
        "triples (a,b,c) of SqlValue over all 16 variants; b and c are drawn as same-kind 'twins' of a (sign-flipped zero, NaN payloads, ±1 ulp, \
         unit-converted intervals) in 70% of cases, independent otherwise. Non-trivial = the triple contains a taught special (NaN/±0/inf/i64 extremes/\
         Unsigned>i64::MAX/interval) or a pair that is == but not bit-identical. Distinct = hash of the serialised triple."
            .into()
    }
    fn assumptions(&self) -> Vec<String> {
        vec!["hash consistency is checked with std DefaultHasher (the hasher the engine's HashMap/HashSet use)".into()]
    }
    fn cases(&self, tier: Tier) -> u64 {
        match tier {
            Tier::Quick => 3_000_000,
            Tier::Thorough => 100_000_000,
        }
    }
    fn tape_len(&self, _t: Tier) -> usize {
        40
    }
    fn build(&self, t: &mut Tape, _cfg: &GenCfg) -> Case {
        let a = gen_any(t);
        let b = if t.chance(7, 10) { twin(t, &a) } else { gen_any(t) };
        let c = if t.chance(7, 10) {
            let base = if t.chance(1, 2) { a.clone() } else { b.clone() };
            twin(t, &base)
        } else {
            gen_any(t)
        };
        Case::Laws { a, b, c }
    }
    fn render(&self, c: &Case) -> String {
        match c {
            Case::Laws { a, b, c } => format!("a={} b={} c={}", a.show(), b.show(), c.show()),
        }
    }
    fn run(&self, case: &Case, obs: &mut Obs) -> Verdict {
        let Case::Laws { a, b, c } = case;
        let (va, vb, vc) = (a.to_sql(), b.to_sql(), c.to_sql());
        let vs = [(a, &va), (b, &vb), (c, &vc)];
        let mut nontrivial = special(a) || special(b) || special(c);
        obs.class(&format!("kind:{}", group(a)));
        if a.kind() != b.kind() || b.kind() != c.kind() {
            obs.class("mixed_kinds");
        }
        // 1. reflexivity
        for (m, v) in &vs {
            #[allow(clippy::eq_op)]
            if !(*v == *v) {
                return Verdict::fail(sig("eq_reflexive", m, m), format!("{} != itself", m.show()));
            }
            if v.cmp(v) != Ordering::Equal {
                return Verdict::fail(sig("cmp_reflexive", m, m), format!("cmp({0},{0}) != Equal", m.show()));
            }
        }
        // pairwise laws
        for i in 0..3 {
            for j in 0..3 {
                if i == j {
                    continue;
                }
                let (mx, x) = vs[i];
                let (my, y) = vs[j];
                let e = x == y;
                if e && mx != my {
                    nontrivial = true;
                    obs.class("equal_not_identical");
                }
                if e != (y == x) {
                    return Verdict::fail(sig("eq_symmetric", mx, my), format!("{} == {} is {}, reverse is {}", mx.show(), my.show(), e, !e));
                }
                let o = x.cmp(y);
                if o != y.cmp(x).reverse() {
                    return Verdict::fail(sig("cmp_antisymmetric", mx, my), format!("cmp({},{})={:?} but reverse={:?}", mx.show(), my.show(), o, y.cmp(x)));
                }
                // intervals: the documented model decides both == and cmp
                if let (V::Interval(sx), V::Interval(sy)) = (mx, my) {
                    if let (Some(ix), Some(iy)) = (vcore::val::interval_model(sx), vcore::val::interval_model(sy)) {
                        obs.class("interval_pair");
                        if e != (ix == iy) {
                            return Verdict::fail(
                                "interval_model.eq",
                                format!("'{}' == '{}' is {}, documented (months,days,us) are {:?} vs {:?}", sx, sy, e, ix, iy),
                            );
                        }
                        let mo = vcore::val::interval_linear(ix).cmp(&vcore::val::interval_linear(iy));
                        if o != mo {
                            return Verdict::fail(
                                "interval_model.cmp",
                                format!("cmp('{}','{}') = {:?}, documented linear value gives {:?}", sx, sy, o, mo),
                            );
                        }
                        if (o == Ordering::Equal) != e {
                            // only reachable for distinct representations of one linear value
                            return Verdict::fail(
                                "cmp_eq_agree.interval.approx_30day_month",
                                format!("cmp('{}','{}')=Equal but == is false", sx, sy),
                            );
                        }
                    }
                }
                if (o == Ordering::Equal) != e {
                    return Verdict::fail(
                        sig("cmp_eq_agree", mx, my),
                        format!("cmp({},{})={:?} but == is {}", mx.show(), my.show(), o, e),
                    );
                }
                if e && hash_of(x) != hash_of(y) {
                    return Verdict::fail(sig("hash_eq", mx, my), format!("{} == {} but hashes differ", mx.show(), my.show()));
                }
                if let Some(p) = x.partial_cmp(y) {
                    if p != o {
                        return Verdict::fail(
                            sig("partial_cmp_agree", mx, my),
                            format!("partial_cmp({},{})={:?} but cmp={:?}", mx.show(), my.show(), p, o),
                        );
                    }
                }
            }
        }
        // transitivity over all orderings of the triple
        for p in [[0, 1, 2], [0, 2, 1], [1, 0, 2], [1, 2, 0], [2, 0, 1], [2, 1, 0]] {
            let (mx, x) = vs[p[0]];
            let (my, y) = vs[p[1]];
            let (mz, z) = vs[p[2]];
            if x == y && y == z && x != z {
                return Verdict::fail(sig("eq_transitive", mx, mz), format!("{} == {} == {} but first != last", mx.show(), my.show(), mz.show()));
            }
            if x.cmp(y) != Ordering::Greater && y.cmp(z) != Ordering::Greater && x.cmp(z) == Ordering::Greater {
                return Verdict::fail(
                    sig("cmp_transitive", mx, mz),
                    format!("{} <= {} <= {} but first > last", mx.show(), my.show(), mz.show()),
                );
            }
        }
        obs.nontrivial = nontrivial;
        Verdict::Pass
    }
}
