//! C04 — results do not depend on the parallelism configuration.
//! The configuration is read once per process (PARALLEL_THRESHOLD, rayon pool size), so the same
//! generated workload is executed in long-lived child processes of this binary that differ only
//! in their environment, and the answers are compared.

use serde::{Deserialize, Serialize};
use std::cell::RefCell;
use std::io::{BufRead, BufReader, Write};
use std::process::{Child, ChildStdin, Command, Stdio};
use std::sync::mpsc::{channel, Receiver};
use std::time::Duration;
use vcore::sql::gen::{gen_world, ExprOpts, Gen, QueryOpts, World, WorldCfg};
use vcore::sql::ir::{Dialect, Query};
use vcore::val::{CRow, CV, V};
use vcore::{Check, GenCfg, Obs, Tape, Tier, Verdict};

#[derive(Clone, Debug, Serialize, Deserialize)]
pub struct C04Case {
    pub world: World,
    pub queries: Vec<Query>,
    pub feats: Vec<String>,
    #[serde(default)]
    pub raw: Option<RawC04>,
}

#[derive(Clone, Debug, Serialize, Deserialize)]
pub struct RawC04 {
    pub setup: Vec<String>,
    pub queries: Vec<String>,
    pub ordered: Vec<bool>,
}

#[derive(Serialize, Deserialize)]
struct Request {
    setup: Vec<String>,
    queries: Vec<String>,
}

#[derive(Serialize, Deserialize, Clone, Debug)]
enum Answer {
    Rows(Vec<Vec<V>>),
    Err(String),
    Panic(String),
}

#[derive(Serialize, Deserialize)]
struct Response {
    /// per query: two executions on the same state
    answers: Vec<(Answer, Answer)>,
    setup_error: Option<String>,
}

/// Child mode: `vcheck --c04-child`; one request per line on stdin, one response per line on stdout.
pub fn child_main() -> i32 {
    vcore::runner::install_panic_hook();
    let stdin = std::io::stdin();
    let mut out = std::io::stdout();
    for line in stdin.lock().lines() {
        let Ok(line) = line else { break };
        if line.trim().is_empty() {
            continue;
        }
        let req: Request = match serde_json::from_str(&line) {
            Ok(r) => r,
            Err(e) => {
                eprintln!("c04 child: bad request: {}", e);
                return 2;
            }
        };
        let mut db = vibesql_storage::Database::new();
        let mut setup_error = None;
        for s in &req.setup {
            if let Err(e) = vcore::engine::exec(&mut db, s) {
                setup_error = Some(format!("`{}`: {}", vcore::runner::truncate(s, 120), e.text()));
                break;
            }
        }
        let mut answers = Vec::new();
        if setup_error.is_none() {
            for q in &req.queries {
                let run = |db: &vibesql_storage::Database| match vcore::runner::catch(|| vcore::engine::query_raw(db, q)) {
                    Ok(Ok(rows)) => Answer::Rows(rows.iter().map(|r| r.values.iter().map(V::from_sql).collect()).collect()),
                    Ok(Err(e)) => Answer::Err(vcore::runner::truncate(&e.text(), 160)),
                    // a panic is an answer too: "PANIC" on one side and rows on the other is a difference
                    Err(p) => Answer::Panic(vcore::runner::truncate(&p, 160)),
                };
                answers.push((run(&db), run(&db)));
            }
        }
        let resp = Response { answers, setup_error };
        if writeln!(out, "{}", serde_json::to_string(&resp).unwrap()).is_err() || out.flush().is_err() {
            break;
        }
    }
    0
}

struct Kid {
    label: &'static str,
    child: Child,
    stdin: ChildStdin,
    rx: Receiver<String>,
}

impl Kid {
    fn spawn(label: &'static str, threshold: &str, threads: &str) -> Result<Kid, String> {
        let exe = std::env::current_exe().map_err(|e| e.to_string())?;
        let mut child = Command::new(exe)
            .arg("--c04-child")
            .env("PARALLEL_THRESHOLD", threshold)
            .env("RAYON_NUM_THREADS", threads)
            .stdin(Stdio::piped())
            .stdout(Stdio::piped())
            .stderr(Stdio::null())
            .spawn()
            .map_err(|e| format!("cannot spawn child: {}", e))?;
        let stdin = child.stdin.take().unwrap();
        let stdout = child.stdout.take().unwrap();
        let (tx, rx) = channel();
        std::thread::spawn(move || {
            for line in BufReader::new(stdout).lines() {
                match line {
                    Ok(l) => {
                        if tx.send(l).is_err() {
                            break;
                        }
                    }
                    Err(_) => break,
                }
            }
        });
        Ok(Kid { label, child, stdin, rx })
    }
    /// Ok(response) / Err(what happened to the child)
    fn ask(&mut self, req: &str) -> Result<Response, String> {
        if writeln!(self.stdin, "{}", req).is_err() || self.stdin.flush().is_err() {
            return Err("child closed its input (died)".into());
        }
        match self.rx.recv_timeout(Duration::from_secs(90)) {
            Ok(l) => serde_json::from_str(&l).map_err(|e| format!("unreadable response: {}", e)),
            Err(std::sync::mpsc::RecvTimeoutError::Timeout) => Err("timeout".into()),
            Err(_) => Err("child died".into()),
        }
    }
}
impl Drop for Kid {
    fn drop(&mut self) {
        let _ = self.child.kill();
        let _ = self.child.wait();
    }
}

/// (label, PARALLEL_THRESHOLD, RAYON_NUM_THREADS)
const CONFIGS: [(&str, &str, &str); 3] = [("never_parallel(threshold=max,threads=1)", "max", "1"), ("always_parallel(threshold=0,threads=4)", "0", "4"), ("always_parallel(threshold=0,threads=2)", "0", "2")];

thread_local! {
    static KIDS: RefCell<Vec<Kid>> = const { RefCell::new(Vec::new()) };
}

fn to_crows(rows: &[Vec<V>]) -> Vec<CRow> {
    rows.iter().map(|r| r.iter().map(|v| CV::from_sql(&v.to_sql())).collect()).collect()
}

fn same(a: &Answer, b: &Answer, ordered: bool) -> bool {
    match (a, b) {
        (Answer::Err(_), Answer::Err(_)) => true,
        (Answer::Panic(_), Answer::Panic(_)) => true,
        (Answer::Rows(x), Answer::Rows(y)) => {
            let (x, y) = (to_crows(x), to_crows(y));
            if ordered {
                vcore::val::seq_eq(&x, &y, 1e-9)
            } else {
                vcore::val::multiset_eq(&x, &y, 1e-9)
            }
        }
        _ => false,
    }
}

fn show(a: &Answer) -> String {
    match a {
        Answer::Err(e) => format!("  ERROR {}\n", e),
        Answer::Panic(e) => format!("  PANIC {}\n", e),
        Answer::Rows(r) => vcore::val::show_rows(&to_crows(r), 20),
    }
}

pub struct C04;

/// world with one large table (t0, 1100-2600 rows, small key domain, NULLs) and one small table
/// (t1); queries: equi-joins in both orders (hash-join build over the large side), filtered
/// aggregates, DISTINCT, and ORDER BY over all columns with LIMIT.
fn build_huge(t: &mut Tape) -> C04Case {
    use vcore::sql::ir::*;
    let mut world = gen_world(t, &WorldCfg { min_tables: 2, max_tables: 2, max_rows: 10, ..WorldCfg::default() });
    // column 0 of every generated table is INTEGER
    let n = t.range(1100, 2600) as usize;
    let modulus = *t.pick(&[37i64, 101, 7, 1000]);
    let proto: Vec<Vec<V>> = if world.rows[0].is_empty() { vec![world.tables[0].cols.iter().map(|_| V::Null).collect()] } else { world.rows[0].clone() };
    let mut rows = Vec::with_capacity(n);
    for i in 0..n {
        let mut r = proto[i % proto.len()].clone();
        r[0] = if i % 53 == 17 { V::Null } else { V::Int((i as i64 * 7919) % modulus) };
        rows.push(r);
    }
    world.rows[0] = rows;
    // half of these cases: the second table is large too, with (nearly) unique keys on both
    // sides, so that either side of a hash join has more than one build chunk
    if t.chance(1, 2) {
        let n2 = t.range(1100, 2600) as usize;
        for (i, r) in world.rows[0].iter_mut().enumerate() {
            r[0] = if i % 53 == 17 { V::Null } else { V::Int((i as i64 * 7919) % 2609) };
        }
        let proto1: Vec<Vec<V>> = if world.rows[1].is_empty() { vec![world.tables[1].cols.iter().map(|_| V::Null).collect()] } else { world.rows[1].clone() };
        world.rows[1] = (0..n2)
            .map(|i| {
                let mut r = proto1[i % proto1.len()].clone();
                r[0] = if i % 41 == 5 { V::Null } else { V::Int(i as i64) };
                r
            })
            .collect();
    }
    let (a, b) = (world.tables[0].clone(), world.tables[1].clone());
    let (ak, bk) = (a.cols[0].name.clone(), b.cols[0].name.clone());
    let tab = |td: &TableDef| FromItem::Table { name: td.name.clone(), alias: None };
    let join = |l: &TableDef, r: &TableDef, kind: JoinKind| FromItem::Join { l: Box::new(tab(l)), kind, r: Box::new(tab(r)), on: Some(bin(col(&ak), BinOp::Eq, col(&bk))) };
    let all_cols = |tds: &[&TableDef]| -> Vec<(Expr, Option<String>)> { tds.iter().flat_map(|td| td.cols.iter().map(|c| col(&c.name))).enumerate().map(|(i, e)| (e, Some(format!("c{}", i)))).collect() };
    let lim = t.range(1, 60) as u64;
    let k = t.range(0, modulus.min(40));
    let mut queries = Vec::new();
    for _ in 0..t.range(1, 3) {
        let q = match t.below(6) {
            0 => Query::of(Select { items: all_cols(&[&a, &b]), from: vec![join(&a, &b, JoinKind::Inner)], ..Default::default() }),
            1 => Query::of(Select { items: all_cols(&[&b, &a]), from: vec![join(&b, &a, JoinKind::Inner)], ..Default::default() }),
            2 => Query::of(Select { items: all_cols(&[&b, &a]), from: vec![join(&b, &a, JoinKind::Left)], where_: Some(bin(col(&bk), BinOp::Ge, int(k))), ..Default::default() }),
            3 => Query::of(Select {
                items: vec![(Expr::Agg { f: AggFn::Count, distinct: false, arg: None }, Some("c0".into())), (Expr::Agg { f: AggFn::Sum, distinct: false, arg: Some(Box::new(col(&ak))) }, Some("c1".into())), (col(&ak), Some("c2".into()))],
                from: vec![tab(&a)],
                where_: Some(bin(col(&ak), BinOp::Ne, int(k))),
                group_by: vec![col(&ak)],
                ..Default::default()
            }),
            4 => Query::of(Select { distinct: true, items: vec![(col(&ak), Some("c0".into()))], from: vec![tab(&a)], where_: Some(bin(col(&ak), BinOp::Lt, int(k + 5))), ..Default::default() }),
            _ => {
                let items = all_cols(&[&a]);
                let nitems = items.len();
                let mut q = Query::of(Select { items, from: vec![tab(&a)], where_: Some(bin(col(&ak), BinOp::Ge, int(k))), ..Default::default() });
                q.order_by = (1..=nitems).map(|p| (OrderKey::Pos(p), p % 2 == 0)).collect();
                q.limit = Some(lim);
                q
            }
        };
        queries.push(q);
    }
    C04Case { world, queries, feats: vec!["huge_table".into()], raw: None }
}

impl Check for C04 {
    type Case = C04Case;
    fn id(&self) -> &'static str {
        "C04"
    }
    fn rule(&self) -> String {
        "worlds of 1-3 tables with up to 8 rows or up to 60 rows without subqueries, and one case in ten with tables of 1100-2600 rows and fixed query shapes (equi-joins in both orders whose hash build exceeds one 1000-row chunk, grouped aggregates, DISTINCT, ORDER BY + LIMIT), NULLs and duplicates; 1-3 queries per world from the typed grammar (INNER/LEFT/CROSS joins incl. hash-join shapes, WHERE with AND/OR/IN/BETWEEN/LIKE/CASE, subqueries, DISTINCT, aggregates, GROUP BY/HAVING, set operations, ORDER BY over all output columns with LIMIT/OFFSET). \
         Each world+queries is sent to three long-lived child processes of this binary that differ only in PARALLEL_THRESHOLD and RAYON_NUM_THREADS: (max, 1) = never parallel, (0, 4) and (0, 2) = every scan/filter/sort/aggregate/join takes its parallel branch at every size. Every query is executed twice in each process. \
         Oracle: the two executions in one process agree (repeatability) and every always-parallel process agrees with the never-parallel one: equal multisets, equal sequences when ORDER BY covers all output columns; errors must be errors everywhere. \
         Non-trivial = the never-parallel answer has at least 2 rows or comes from an aggregate over at least 2 input rows. Distinct = hash of the case."
            .into()
    }
    fn assumptions(&self) -> Vec<String> {
        vec![
            "thread interleavings inside rayon are not controlled: each case samples one schedule per configuration (the technique cannot enumerate schedules)".into(),
            "DOUBLE results are compared with tolerance 1e-9 (a parallel sum may associate differently)".into(),
            "the hardware-dependent default thresholds lie between the two extremes that are compared".into(),
        ]
    }
    fn cases(&self, tier: Tier) -> u64 {
        match tier {
            Tier::Quick => 5_000,
            Tier::Thorough => 60_000,
        }
    }
    fn tape_len(&self, _t: Tier) -> usize {
        3000
    }
    fn floors(&self) -> Vec<(&'static str, f64)> {
        vec![("case_compared", 0.98)]
    }
    fn max_shrink_iters(&self) -> u32 {
        // cases with 2600-row tables are expensive to re-run
        60
    }
    fn build(&self, t: &mut Tape, g: &GenCfg) -> C04Case {
        // Some parallel operators only split their input above a built-in minimum (the hash-join
        // build uses chunks of at least 1000 rows): one case in ten has a table of 1100-2600 rows
        // and fixed query shapes that stay cheap at that size.
        if t.chance(1, 10) {
            return build_huge(t);
        }
        let big = t.chance(1, 3);
        let world = gen_world(t, &WorldCfg { max_rows: if big { 60 } else { 8 }, max_tables: if big { 2 } else { 3 }, ..WorldCfg::default() });
        // stay out of the regions of recorded defects (trigger names as in C01) in 80% of the workers
        let avoid = |s: &str| g.avoid_known && g.known_open.iter().any(|k| k.ends_with(s));
        let sub_off = avoid(".in_subquery") || avoid(".not_in_subquery") || avoid(".exists_subquery");
        let eo = ExprOpts { subqueries: !big, pred_subqueries: !big && !sub_off, ..Default::default() };
        let qo = QueryOpts { right_full: !avoid(".right_full_join"), self_join: !avoid(".self_join_where"), order_on_agg: !avoid(".aggregate_order_by"), order_on_setop: !avoid(".setop_order_limit"), ..QueryOpts::default() };
        let gen = Gen::new(&world, eo);
        let mut queries = Vec::new();
        let mut feats: Vec<String> = Vec::new();
        for _ in 0..t.range(1, 3) {
            let (q, f, _) = gen.gen_query(t, &qo);
            for x in f {
                if !feats.iter().any(|y| y == x) {
                    feats.push(x.to_string());
                }
            }
            queries.push(q);
        }
        C04Case { world, queries, feats, raw: None }
    }
    fn render(&self, c: &C04Case) -> String {
        if let Some(r) = &c.raw {
            return format!("{};\n{}", r.setup.join(";\n"), r.queries.join(";\n"));
        }
        let mut v = c.world.setup_sql(Dialect::Vibe);
        v.extend(c.queries.iter().map(|q| q.render(Dialect::Vibe)));
        v.iter().map(|s| vcore::runner::truncate(s, 1500)).collect::<Vec<_>>().join(";\n")
    }
    fn run(&self, case: &C04Case, obs: &mut Obs) -> Verdict {
        let (setup, queries, ordered): (Vec<String>, Vec<String>, Vec<bool>) = match &case.raw {
            Some(r) => (r.setup.clone(), r.queries.clone(), r.ordered.clone()),
            None => (case.world.setup_sql(Dialect::Vibe), case.queries.iter().map(|q| q.render(Dialect::Vibe)).collect(), case.queries.iter().map(|q| !q.order_by.is_empty()).collect()),
        };
        let req = serde_json::to_string(&Request { setup: setup.clone(), queries: queries.clone() }).unwrap();
        let mut responses: Vec<Response> = Vec::new();
        let outcome: Result<(), String> = KIDS.with(|k| {
            let mut kids = k.borrow_mut();
            if kids.is_empty() {
                for (l, th, n) in CONFIGS {
                    kids.push(Kid::spawn(l, th, n)?);
                }
            }
            for i in 0..kids.len() {
                match kids[i].ask(&req) {
                    Ok(r) => responses.push(r),
                    Err(what) => {
                        let label = kids[i].label;
                        // replace the dead / stuck child so that later cases can run
                        kids.clear();
                        return Err(format!("{}: {}", label, what));
                    }
                }
            }
            Ok(())
        });
        if let Err(what) = outcome {
            // A process that is too slow or dies under one configuration gives no comparison
            // result: the case is skipped and counted; the floor on `case_compared` turns a run
            // with more than 2% skipped cases into "inconclusive" (exit 2), never into a violation.
            obs.class(if what.ends_with("timeout") { "case_skipped_timeout" } else { "case_skipped_child_died" });
            return Verdict::Pass;
        }
        obs.class("case_compared");
        if let Some(e) = &responses[0].setup_error {
            return Verdict::Harness(format!("setup rejected: {}", e));
        }
        let base = &responses[0];
        for (qi, sql) in queries.iter().enumerate() {
            obs.sub_evals += 1;
            let trig: Vec<&'static str> = match &case.raw {
                Some(_) => vec!["raw"],
                None => crate::c01::triggers(&case.queries[qi]),
            };
            for f in &trig {
                obs.class(&format!("trigger:{}", f));
            }
            let trigger = trig.first().copied().unwrap_or("none");
            if let Answer::Rows(r) = &base.answers[qi].0 {
                if r.len() >= 2 || (case.feats.iter().any(|f| f == "aggregate") && case.world.total_rows() >= 2) {
                    obs.nontrivial = true;
                }
            } else {
                obs.class("query_error");
            }
            let mut fail = |sig: String, detail: String| -> Option<Verdict> {
                if vcore::kf::is_open_global(&sig) {
                    if !obs.known_hits.contains(&sig) {
                        obs.known_hits.push(sig);
                    }
                    None
                } else {
                    Some(Verdict::fail(sig, format!("{}\nquery: {}\n--- setup ---\n{}", detail, sql, setup.iter().map(|s| vcore::runner::truncate(s, 600)).collect::<Vec<_>>().join(";\n"))))
                }
            };
            for (ci, resp) in responses.iter().enumerate() {
                let (a, b) = &resp.answers[qi];
                if !same(a, b, ordered[qi]) {
                    if let Some(v) = fail(format!("c04.unstable_result.{}", trigger), format!("two executions of the same query on the same state in one process [{}] differ:\nfirst:\n{}second:\n{}", CONFIGS[ci].0, show(a), show(b))) {
                        return v;
                    }
                }
            }
            for ci in 1..responses.len() {
                let a = &base.answers[qi].0;
                let b = &responses[ci].answers[qi].0;
                if !same(a, b, ordered[qi]) {
                    let shape = match (a, b) {
                        (Answer::Rows(_), Answer::Rows(_)) => "result",
                        _ => "error_asymmetry",
                    };
                    if let Some(v) = fail(if trigger == "none" { format!("c04.config_differs.{}.none", shape) } else { format!("c04.unstable_result.{}", trigger) }, format!("configurations disagree ({}):\n[{}]:\n{}[{}]:\n{}", shape, CONFIGS[0].0, show(a), CONFIGS[ci].0, show(b))) {
                        return v;
                    }
                }
            }
        }
        Verdict::Pass
    }
}
