//! C02 — query results do not depend on which secondary indexes exist (twin databases).

use crate::agg::{gen_float, AExpr, APred, ATable};
use serde::{Deserialize, Serialize};
use vcore::engine;
use vcore::sql::ir::{lit_sql, BinOp, ColTy, Dialect};
use vcore::val::{multiset_eq, show_rows, CRow, CV, V};
use vcore::{Check, GenCfg, Obs, Tape, Tier, Verdict};

pub struct C02;

#[derive(Clone, Debug, Serialize, Deserialize)]
pub struct IndexDef {
    pub name: String,
    /// (column, descending, prefix length for VARCHAR)
    pub cols: Vec<(usize, bool, Option<u32>)>,
    pub unique: bool,
}

#[derive(Clone, Debug, Serialize, Deserialize)]
pub enum Op {
    Insert(Vec<Vec<V>>),
    Update { col: usize, val: V, plus_one: bool, where_: Option<APred> },
    Delete { where_: Option<APred> },
    CreateIndex(usize),
    DropIndex(usize),
    Analyze,
}

#[derive(Clone, Debug, Serialize, Deserialize)]
pub struct Query {
    pub where_: Option<APred>,
    /// (column, desc)
    pub order_by: Vec<(usize, bool)>,
    pub limit: Option<u64>,
}

#[derive(Clone, Debug, Serialize, Deserialize)]
pub struct Case {
    pub table: ATable,
    pub indexes: Vec<IndexDef>,
    pub history: Vec<Op>,
    pub queries: Vec<Query>,
    /// hand-written regression input (overrides the fields above): statements are applied to both
    /// twins except index DDL (CREATE [UNIQUE] INDEX / DROP INDEX), which only the indexed twin runs
    #[serde(default)]
    pub raw: Option<RawTwin>,
}

#[derive(Clone, Debug, Serialize, Deserialize)]
pub struct RawTwin {
    pub statements: Vec<String>,
    pub queries: Vec<String>,
    /// queries whose sequence (not only multiset) must agree
    #[serde(default)]
    pub ordered: bool,
}

fn run_raw(r: &RawTwin, obs: &mut Obs, id: &str) -> Verdict {
    let mut plain = vibesql_storage::Database::new();
    let mut indexed = vibesql_storage::Database::new();
    for st in &r.statements {
        let up = st.trim_start().to_uppercase();
        let index_ddl = up.starts_with("CREATE INDEX") || up.starts_with("CREATE UNIQUE INDEX") || up.starts_with("DROP INDEX");
        if let Err(e) = engine::exec(&mut indexed, st) {
            return Verdict::Harness(format!("indexed twin rejected `{}`: {}", st, e.text()));
        }
        if !index_ddl {
            if let Err(e) = engine::exec(&mut plain, st) {
                return Verdict::Harness(format!("plain twin rejected `{}`: {}", st, e.text()));
            }
        }
    }
    obs.nontrivial = true;
    obs.class("raw_regression_input");
    for q in &r.queries {
        let a = engine::query(&plain, q);
        let b = engine::query(&indexed, q);
        let ok = match (&a, &b) {
            (Ok(x), Ok(y)) => {
                if r.ordered {
                    vcore::val::seq_eq(x, y, 1e-9)
                } else {
                    multiset_eq(x, y, 1e-9)
                }
            }
            (Err(_), Err(_)) => true,
            _ => false,
        };
        if !ok {
            let show = |r: &Result<Vec<CRow>, engine::ExecErr>| match r {
                Ok(rows) => show_rows(rows, 30),
                Err(e) => format!("  ERROR {}\n", e.text()),
            };
            return Verdict::fail(format!("{}.raw.diff", id), format!("{}\nwithout indexes:\n{}with indexes:\n{}", q, show(&a), show(&b)));
        }
    }
    Verdict::Pass
}

impl IndexDef {
    pub fn create_sql(&self, t: &ATable) -> String {
        let cols: Vec<String> = self
            .cols
            .iter()
            .map(|(c, d, p)| format!("{}{} {}", t.cols[*c].0, p.map(|n| format!("({})", n)).unwrap_or_default(), if *d { "DESC" } else { "ASC" }))
            .collect();
        format!("CREATE {}INDEX {} ON t ({})", if self.unique { "UNIQUE " } else { "" }, self.name, cols.join(", "))
    }
}

pub fn op_sql(op: &Op, t: &ATable, idx: &[IndexDef]) -> String {
    match op {
        Op::Insert(rows) => vcore::sql::ir::insert_sql("t", None, rows, Dialect::Vibe),
        Op::Update { col, val, plus_one, where_ } => {
            let rhs = if *plus_one { format!("{} + 1", t.cols[*col].0) } else { lit_sql(val, Dialect::Vibe) };
            format!("UPDATE t SET {} = {}{}", t.cols[*col].0, rhs, where_.as_ref().map(|w| format!(" WHERE {}", w.render(t))).unwrap_or_default())
        }
        Op::Delete { where_ } => format!("DELETE FROM t{}", where_.as_ref().map(|w| format!(" WHERE {}", w.render(t))).unwrap_or_default()),
        Op::CreateIndex(i) => idx[*i].create_sql(t),
        Op::DropIndex(i) => format!("DROP INDEX {}", idx[*i].name),
        Op::Analyze => "ANALYZE t".to_string(),
    }
}

pub fn query_sql(q: &Query, t: &ATable) -> String {
    let mut s = "SELECT * FROM t".to_string();
    if let Some(w) = &q.where_ {
        s.push_str(&format!(" WHERE {}", w.render(t)));
    }
    if !q.order_by.is_empty() {
        s.push_str(&format!(" ORDER BY {}", q.order_by.iter().map(|(c, d)| format!("{} {}", t.cols[*c].0, if *d { "DESC" } else { "ASC" })).collect::<Vec<_>>().join(", ")));
    }
    if let Some(l) = q.limit {
        s.push_str(&format!(" LIMIT {}", l));
    }
    s
}

// -------------------------------------------------------------------------------------------
// generation

fn gen_val(t: &mut Tape, ty: &ColTy, nullable: bool) -> V {
    if nullable && t.chance(1, 6) {
        return V::Null;
    }
    match ty {
        ColTy::Int => V::Int(*t.pick(&[10i64, 20, 30, 0, 5, 15, 25, -5, 100, 20, 21, 19])),
        ColTy::Double => V::dbl(gen_float(t, true)),
        _ => V::Varchar(t.pick(&["apple", "apricot", "app", "banana", "b", "", "apple pie", "APPLE", "cherry", "ap"]).to_string()),
    }
}

/// literal for predicates on a column: boundary values from the data, the other numeric type
fn gen_lit(t: &mut Tape, tb: &ATable, col: usize, cross_type: bool) -> V {
    let ty = &tb.cols[col].1;
    let from_data = |t: &mut Tape| -> Option<V> {
        if tb.rows.is_empty() {
            return None;
        }
        let v = tb.rows[t.below(tb.rows.len())][col].clone();
        if v == V::Null {
            None
        } else {
            Some(v)
        }
    };
    match ty {
        ColTy::Int => {
            let base = match from_data(t) {
                Some(V::Int(i)) if t.chance(2, 3) => i,
                _ => *t.pick(&[10i64, 20, 30, 0, 15, 21, 19, 100, -5]),
            };
            let v = base + *t.pick(&[0i64, 0, 1, -1]);
            if cross_type && t.chance(1, 4) {
                V::dbl(v as f64 + *t.pick(&[0.0, 0.5, -0.5]))
            } else {
                V::Int(v)
            }
        }
        ColTy::Double => {
            let base = match from_data(t) {
                Some(V::Double(b)) if t.chance(2, 3) => f64::from_bits(b),
                _ => gen_float(t, true),
            };
            let v = base + *t.pick(&[0.0, 0.0, 0.5, -0.5]);
            if cross_type && t.chance(1, 4) && v.fract() == 0.0 {
                V::Int(v as i64)
            } else {
                V::dbl(v)
            }
        }
        _ => match from_data(t) {
            Some(v) if t.chance(1, 2) => v,
            _ => V::Varchar(t.pick(&["apple", "apricot", "app", "banana", "b", "", "apple pie", "APPLE", "cherry", "ap", "appl", "applf"]).to_string()),
        },
    }
}

fn gen_atom(t: &mut Tape, tb: &ATable, prefer: &[usize], cross_type: bool, null_lits: bool) -> APred {
    let col = if !prefer.is_empty() && t.chance(3, 4) { prefer[t.below(prefer.len())] } else { t.below(tb.cols.len()) };
    let lit = |t: &mut Tape| -> AExpr {
        if null_lits && t.chance(1, 15) {
            AExpr::Lit(V::Null)
        } else {
            AExpr::Lit(gen_lit(t, tb, col, cross_type))
        }
    };
    match t.weighted(&[6, 2, 2, 1]) {
        0 => {
            let op = *t.pick(&[BinOp::Eq, BinOp::Lt, BinOp::Gt, BinOp::Le, BinOp::Ge, BinOp::Ne]);
            if t.chance(1, 4) {
                APred::Cmp(lit(t), op, AExpr::Col(col))
            } else {
                APred::Cmp(AExpr::Col(col), op, lit(t))
            }
        }
        1 => APred::Between(AExpr::Col(col), lit(t), lit(t)),
        2 => {
            let n = t.range(1, 4) as usize;
            let mut vs: Vec<V> = (0..n).map(|_| gen_lit(t, tb, col, cross_type)).collect();
            if null_lits && t.chance(1, 6) {
                vs.push(V::Null);
            }
            if t.chance(1, 4) && !vs.is_empty() {
                let d = vs[0].clone();
                vs.push(d);
            }
            APred::In(AExpr::Col(col), vs, t.chance(1, 5))
        }
        _ => APred::IsNull(AExpr::Col(col), t.chance(1, 2)),
    }
}

pub fn gen_pred(t: &mut Tape, tb: &ATable, prefer: &[usize], depth: u32, cross_type: bool, null_lits: bool) -> APred {
    if depth == 0 {
        return gen_atom(t, tb, prefer, cross_type, null_lits);
    }
    match t.weighted(&[5, 4, 2, 1]) {
        0 => gen_atom(t, tb, prefer, cross_type, null_lits),
        1 => APred::And(Box::new(gen_pred(t, tb, prefer, depth - 1, cross_type, null_lits)), Box::new(gen_pred(t, tb, prefer, depth - 1, cross_type, null_lits))),
        2 => APred::Or(Box::new(gen_pred(t, tb, prefer, depth - 1, cross_type, null_lits)), Box::new(gen_pred(t, tb, prefer, depth - 1, cross_type, null_lits))),
        _ => APred::Not(Box::new(gen_pred(t, tb, prefer, depth - 1, cross_type, null_lits))),
    }
}

#[derive(Clone, Debug)]
pub struct HistCfg {
    pub max_rows: usize,
    pub max_ops: usize,
    pub allow_desc: bool,
    pub allow_prefix: bool,
    pub allow_multi: bool,
    pub allow_null: bool,
    pub allow_unique: bool,
    pub allow_order: bool,
    pub cross_type: bool,
}

pub fn gen_case(t: &mut Tape, h: &HistCfg) -> Case {
    // column 0 is a unique id; the rest are INTEGER / DOUBLE / VARCHAR
    let ncols = t.range(3, 5) as usize;
    let mut cols = vec![("id".to_string(), ColTy::Int)];
    for i in 1..ncols {
        let ty = match t.weighted(&[4, 2, 3]) {
            0 => ColTy::Int,
            1 => ColTy::Double,
            _ => ColTy::Varchar(20),
        };
        cols.push((["id", "a", "b", "c", "d"][i].to_string(), ty));
    }
    let nullable = h.allow_null;
    let mut next_id = 1i64;
    let mut mk_row = |t: &mut Tape, next_id: &mut i64| -> Vec<V> {
        let mut r = vec![V::Int(*next_id)];
        *next_id += 1;
        for (_, ty) in cols.iter().skip(1) {
            r.push(gen_val(t, ty, nullable));
        }
        r
    };
    let nr = match t.weighted(&[8, 1, 1]) {
        0 => t.range(2, h.max_rows.max(2) as i64) as usize,
        1 => 0,
        _ => 1,
    };
    let rows: Vec<Vec<V>> = (0..nr).map(|_| mk_row(t, &mut next_id)).collect();
    let table = ATable { cols: cols.clone(), rows };
    // index definitions
    let nidx = t.range(1, 3) as usize;
    let mut indexes = Vec::new();
    for k in 0..nidx {
        let ncol = if h.allow_multi { *t.pick(&[1usize, 1, 2, 3]) } else { 1 };
        let mut ic: Vec<(usize, bool, Option<u32>)> = Vec::new();
        for _ in 0..ncol {
            let c = t.range(1, ncols as i64 - 1) as usize;
            if ic.iter().any(|(x, _, _)| *x == c) {
                continue;
            }
            let desc = h.allow_desc && t.chance(1, 3);
            let prefix = if h.allow_prefix && matches!(cols[c].1, ColTy::Varchar(_)) && t.chance(1, 3) { Some(*t.pick(&[3u32, 1, 5])) } else { None };
            ic.push((c, desc, prefix));
        }
        let unique = h.allow_unique && t.chance(1, 6);
        if unique {
            ic = vec![(0, false, None)];
        }
        indexes.push(IndexDef { name: format!("ix{}", k), cols: ic, unique });
    }
    let indexed_cols: Vec<usize> = indexes.iter().flat_map(|i| i.cols.iter().map(|c| c.0)).collect();
    // history: indexes are created before, in the middle of, or after the DML
    let nops = t.range(0, h.max_ops as i64) as usize;
    let mut history: Vec<Op> = Vec::new();
    let mut created = vec![false; indexes.len()];
    for i in 0..indexes.len() {
        if t.chance(1, 2) {
            history.push(Op::CreateIndex(i));
            created[i] = true;
        }
    }
    for _ in 0..nops {
        let op = match t.weighted(&[4, 4, 3, 1, 1, 1]) {
            0 => {
                let n = t.range(1, 3) as usize;
                Op::Insert((0..n).map(|_| mk_row(t, &mut next_id)).collect())
            }
            1 => {
                let col = if !indexed_cols.is_empty() && t.chance(2, 3) { indexed_cols[t.below(indexed_cols.len())] } else { t.range(1, ncols as i64 - 1) as usize };
                let col = if col == 0 { 1 } else { col };
                let plus_one = matches!(cols[col].1, ColTy::Int) && t.chance(1, 4);
                Op::Update { col, val: gen_val(t, &cols[col].1, nullable), plus_one, where_: if t.chance(3, 4) { Some(gen_pred(t, &table, &indexed_cols, 1, false, false)) } else { None } }
            }
            2 => Op::Delete { where_: if t.chance(5, 6) { Some(gen_pred(t, &table, &indexed_cols, 1, false, false)) } else { None } },
            3 => {
                let i = t.below(indexes.len());
                if created[i] {
                    created[i] = false;
                    Op::DropIndex(i)
                } else {
                    created[i] = true;
                    Op::CreateIndex(i)
                }
            }
            4 => Op::Analyze,
            _ => {
                let n = t.range(3, 8) as usize;
                Op::Insert((0..n).map(|_| mk_row(t, &mut next_id)).collect())
            }
        };
        history.push(op);
    }
    for i in 0..indexes.len() {
        if !created[i] {
            history.push(Op::CreateIndex(i));
        }
    }
    let nq = t.range(1, 6) as usize;
    let mut queries = Vec::new();
    for _ in 0..nq {
        let where_ = if t.chance(5, 6) { Some(gen_pred(t, &table, &indexed_cols, 2, h.cross_type, h.allow_null)) } else { None };
        let mut order_by = Vec::new();
        let mut limit = None;
        if h.allow_order && t.chance(1, 3) {
            // order by an index's leading columns (the shape the optimisation looks for) or any column
            if t.chance(2, 3) {
                let ix = &indexes[t.below(indexes.len())];
                let flip = t.chance(1, 4);
                for (c, d, _) in ix.cols.iter().take(t.range(1, 3) as usize) {
                    order_by.push((*c, *d != flip));
                }
            } else {
                order_by.push((t.below(ncols), t.chance(1, 2)));
            }
            // total order: append the unique id so that sequences are comparable
            order_by.push((0, t.chance(1, 2)));
            if t.chance(1, 2) {
                limit = Some(t.range(0, 6) as u64);
            }
        }
        queries.push(Query { where_, order_by, limit });
    }
    Case { table, indexes, history, queries, raw: None }
}

// -------------------------------------------------------------------------------------------

fn classify(case: &Case, q: &Query) -> String {
    let t = &case.table;
    let mut f: Vec<&str> = Vec::new();
    let wcols = q.where_.as_ref().map(|w| {
        let mut v = Vec::new();
        crate::agg::where_cols(&crate::agg::AQuery { aggs: vec![], where_: Some(w.clone()), group_by: vec![], having: None, order_by_first: false, limit: None, offset: None })
            .iter()
            .for_each(|c| v.push(*c));
        v
    });
    let wcols = wcols.unwrap_or_default();
    let used: Vec<&IndexDef> = case.indexes.iter().filter(|ix| ix.cols.first().map(|c| wcols.contains(&c.0) || q.order_by.first().map(|o| o.0 == c.0).unwrap_or(false)).unwrap_or(false)).collect();
    if used.iter().any(|ix| ix.cols.iter().any(|c| c.2.is_some())) {
        f.push("prefix_index");
    }
    if used.iter().any(|ix| ix.cols.iter().any(|c| c.1)) {
        f.push("desc_index");
    }
    if used.iter().any(|ix| ix.cols.len() > 1) {
        f.push("multi_column_index");
    }
    if !q.order_by.is_empty() && used.iter().any(|ix| q.order_by.first().map(|o| o.0 == ix.cols[0].0).unwrap_or(false)) {
        f.push("order_by_index");
    }
    let _ = t;
    if f.is_empty() {
        "plain".into()
    } else {
        f.join("+")
    }
}

pub fn run_twins(case: &Case, obs: &mut Obs, id: &str) -> Verdict {
    run_twins_with(case, obs, id, vibesql_storage::Database::new(), false)
}

/// `indexed`: the second twin (for C16 a database whose indexes are spilled to disk).
/// `both_indexed`: index DDL is applied to both twins (C16) instead of the second only (C02).
pub fn run_twins_with(case: &Case, obs: &mut Obs, id: &str, indexed: vibesql_storage::Database, both_indexed: bool) -> Verdict {
    if let Some(r) = &case.raw {
        return run_raw(r, obs, id);
    }
    let t = &case.table;
    let mut plain = vibesql_storage::Database::new();
    let mut indexed = indexed;
    for st in t.setup_sql() {
        for db in [&mut plain, &mut indexed] {
            if let Err(e) = engine::exec(db, &st) {
                return Verdict::Harness(format!("setup `{}`: {}", vcore::runner::truncate(&st, 200), e.text()));
            }
        }
    }
    let mut log: Vec<String> = Vec::new();
    for op in &case.history {
        let sql = op_sql(op, t, &case.indexes);
        let is_index_ddl = matches!(op, Op::CreateIndex(_) | Op::DropIndex(_) | Op::Analyze);
        let ri = engine::exec(&mut indexed, &sql);
        if is_index_ddl && !both_indexed {
            log.push(format!("{} -- indexed twin only: {}", sql, if ri.is_ok() { "ok".to_string() } else { ri.as_ref().unwrap_err().text() }));
            continue;
        }
        if both_indexed {
            // which backend do the second twin's indexes use right now?
            for ix in &case.indexes {
                match indexed.get_index_data(&ix.name) {
                    Some(vibesql_storage::database::IndexData::DiskBacked { .. }) => obs.class("statement_with_disk_backed_index"),
                    Some(vibesql_storage::database::IndexData::InMemory { .. }) => obs.class("statement_with_in_memory_index"),
                    None => {}
                }
            }
        }
        let rp = engine::exec(&mut plain, &sql);
        log.push(sql.clone());
        // the DML itself must behave identically (counts / error-ness)
        let same = match (&rp, &ri) {
            (Ok(engine::Out::Count(a)), Ok(engine::Out::Count(b))) => a == b,
            (Ok(_), Ok(_)) => true,
            (Err(_), Err(_)) => true,
            _ => false,
        };
        if !same {
            return Verdict::fail(
                format!("{}.dml_outcome_differs", id),
                format!("history:\n{}\nstatement `{}`: without indexes {:?}, with indexes {:?}", log.join(";\n"), sql, rp.map_err(|e| e.text()), ri.map_err(|e| e.text())),
            );
        }
    }
    let mutated = case.history.iter().any(|o| matches!(o, Op::Update { .. } | Op::Delete { .. }));
    if mutated {
        obs.class("dml_on_indexed_column");
    }
    for q in &case.queries {
        let sql = query_sql(q, t);
        let feat = classify(case, q);
        obs.class(&format!("feat:{}", feat));
        obs.sub_evals += 1;
        let a = engine::query(&plain, &sql);
        let b = engine::query(&indexed, &sql);
        let (a, b) = match (a, b) {
            (Err(_), Err(_)) => continue,
            (Ok(a), Ok(b)) => (a, b),
            (a, b) => {
                return Verdict::fail(
                    format!("{}.error_asymmetry.{}", id, feat),
                    format!("history:\n{}\n{}\nwithout indexes: {}\nwith indexes: {}", log.join(";\n"), sql, a.map(|r| format!("{} rows", r.len())).unwrap_or_else(|e| e.text()), b.map(|r| format!("{} rows", r.len())).unwrap_or_else(|e| e.text())),
                )
            }
        };
        if !a.is_empty() && feat != "plain" {
            obs.nontrivial = true;
        }
        let ok = if q.order_by.is_empty() {
            multiset_eq(&a, &b, 1e-9)
        } else {
            // ORDER BY ends with the unique id => sequence fully determined
            vcore::val::seq_eq(&a, &b, 1e-9)
        };
        if !ok {
            let shape = if a.len() != b.len() {
                if b.len() < a.len() {
                    "missing_rows"
                } else {
                    "extra_rows"
                }
            } else if multiset_eq(&a, &b, 1e-9) {
                "order"
            } else {
                "values"
            };
            return Verdict::fail(
                format!("{}.{}.{}", id, shape, feat),
                format!("history:\n{}\n{}\nwithout indexes:\n{}with indexes:\n{}", log.join(";\n"), sql, show_rows(&a, 30), show_rows(&b, 30)),
            );
        }
    }
    let _ = (CV::Null, CRow::new());
    Verdict::Pass
}

impl Check for C02 {
    type Case = Case;
    fn id(&self) -> &'static str {
        "C02"
    }
    fn rule(&self) -> String {
        "one table (unique id + INTEGER/DOUBLE/VARCHAR columns with a small value domain, NULLs, shared string prefixes), 1-3 index definitions (single/multi-column, ASC/DESC, VARCHAR prefix length, UNIQUE on id) \
         created before, during or after a history of 0-12 INSERT/UPDATE (incl. indexed columns, col = col + 1)/DELETE/DROP+CREATE INDEX/ANALYZE statements applied to twin databases (the twin without indexes skips index DDL only); \
         then 1-6 `SELECT *` queries whose WHERE uses = < <= > >= (both orientations), BETWEEN (also inverted), IN lists (duplicates, NULL member), IS NULL, AND/OR/NOT, literals of the other numeric type and boundary literals \
         taken from the data +-1, optional ORDER BY on an index's leading columns (+ id for a total order) with LIMIT. Oracle: identical multisets (identical sequences under ORDER BY); every DML reports the same count on both twins. \
         Non-trivial = a query references the leading column of an existing index in WHERE/ORDER BY and returns rows. Distinct = hash of the case."
            .into()
    }
    fn assumptions(&self) -> Vec<String> {
        vec!["the twin without indexes is the reference; its own correctness is C01/C06's subject".into()]
    }
    fn cases(&self, tier: Tier) -> u64 {
        match tier {
            Tier::Quick => 150_000,
            Tier::Thorough => 4_000_000,
        }
    }
    fn tape_len(&self, _t: Tier) -> usize {
        900
    }
    fn build(&self, t: &mut Tape, cfg: &GenCfg) -> Case {
        let h = HistCfg {
            max_rows: if cfg.tier == Tier::Thorough { 60 } else { 24 },
            max_ops: 12,
            allow_desc: !cfg.avoiding("c02.trigger.desc_index"),
            allow_prefix: !cfg.avoiding("c02.trigger.prefix_index"),
            allow_multi: !cfg.avoiding("c02.trigger.multi_column_index"),
            allow_null: !cfg.avoiding("c02.trigger.null_key"),
            allow_unique: true,
            allow_order: !cfg.avoiding("c02.trigger.order_by_index"),
            cross_type: !cfg.avoiding("c02.trigger.cross_type_literal"),
        };
        gen_case(t, &h)
    }
    fn render(&self, c: &Case) -> String {
        if let Some(r) = &c.raw {
            return format!("{};\n{}", r.statements.join(";\n"), r.queries.join(";\n"));
        }
        let mut s: Vec<String> = c.table.setup_sql().iter().map(|x| vcore::runner::truncate(x, 1200)).collect();
        for op in &c.history {
            s.push(op_sql(op, &c.table, &c.indexes));
        }
        for q in &c.queries {
            s.push(query_sql(q, &c.table));
        }
        s.join(";\n")
    }
    fn run(&self, case: &Case, obs: &mut Obs) -> Verdict {
        run_twins(case, obs, "c02")
    }
}
