//! C03 — the columnar aggregate fast path returns exactly what row execution returns.

use crate::agg::*;
use crate::c07::load;
use serde::{Deserialize, Serialize};
use vcore::engine;
use vcore::val::{show_rows, CV};
use vcore::{Check, GenCfg, Obs, Tape, Tier, Verdict};

pub struct C03;

#[derive(Clone, Debug, Serialize, Deserialize)]
pub struct Case {
    pub table: ATable,
    pub query: AQuery,
    /// 0 = derived-table rewrite, 1 = `OR (1 = 0)` rewrite
    pub dodge: u8,
    #[serde(default)]
    pub excluded: u32,
    /// DOUBLE values and literals are multiples of 0.5 in [-64, 64] (sums and products exact in f32)
    #[serde(default)]
    pub exact: bool,
}

/// the trigger feature of a difference, in priority order (one signature per recorded root cause)
fn feature(t: &ATable, q: &AQuery, m: &ModelResult, exact: bool) -> &'static str {
    // the two recorded float defects explain a difference wherever inexact DOUBLE values are
    // involved, so they come first there; with exact values only AVG (a division) can still differ
    if !exact && float_feature(t, q) != "plain" {
        return float_feature(t, q);
    }
    if exact {
        // sums over the 1000-3000 row tables leave f32's exact range even for the exact pool
        // (SUM(b * b) reaches 5e6 in steps of 0.25): there the f32 defect explains a difference again
        return if has_double_avg(t, q) || (t.rows.len() > 256 && is_double(t, &agg_cols(q))) {
            "float_f32_precision"
        } else if q.having.is_some() {
            "having"
        } else if q.limit.is_some() || q.offset.is_some() {
            "limit_offset"
        } else if m.filtered == 0 {
            "empty_input"
        } else if has_string_minmax(t, q) {
            "string_minmax"
        } else if any_null_in_cols(t, &agg_cols(q)) {
            "null_in_aggregated_column"
        } else if any_null_in_cols(t, &(0..t.cols.len()).collect::<Vec<_>>()) {
            "null_in_other_column"
        } else {
            "plain"
        };
    }
    if q.having.is_some() {
        "having"
    } else if q.limit.is_some() || q.offset.is_some() {
        "limit_offset"
    } else if m.filtered == 0 {
        "empty_input"
    } else if has_string_minmax(t, q) {
        "string_minmax"
    } else if any_null_in_cols(t, &agg_cols(q)) {
        "null_in_aggregated_column"
    } else if any_null_in_cols(t, &(0..t.cols.len()).collect::<Vec<_>>()) {
        "null_in_other_column"
    } else {
        float_feature(t, q)
    }
}

/// AVG over an expression that reads a DOUBLE column
fn has_double_avg(t: &ATable, q: &AQuery) -> bool {
    q.aggs.iter().chain(q.having.iter().map(|h| &h.0)).any(|a| {
        a.f == vcore::sql::ir::AggFn::Avg && {
            let one = AQuery { aggs: vec![a.clone()], having: None, ..q.clone() };
            is_double(t, &agg_cols(&one))
        }
    })
}

/// DOUBLE-related triggers shared with C07: the scan-level filter compares with an epsilon, the
/// row path computes DOUBLE arithmetic/SUM/AVG in f32 (the columnar path in f64)
fn float_feature(t: &ATable, q: &AQuery) -> &'static str {
    if is_double(t, &where_cols(q)) {
        "float_where_epsilon"
    } else if is_double(t, &agg_cols(q)) {
        "float_f32_precision"
    } else {
        "plain"
    }
}

impl Check for C03 {
    type Case = Case;
    fn id(&self) -> &'static str {
        "C03"
    }
    fn rule(&self) -> String {
        "one table of 2-5 INTEGER/DOUBLE/VARCHAR columns, 0-40 rows (NULL densities 0/.2/.6/1; one table in 50 (quick) / 6 (thorough) has 1000-3000 rows to fill SIMD batches of 1024 values); queries the columnar gate accepts: \
         select list of COUNT(*)/COUNT(c)/SUM/AVG/MIN/MAX over a column or a+b / a*k, optional WHERE of comparisons/BETWEEN joined by AND; one case in six adds HAVING or ORDER BY 1 / LIMIT / OFFSET, which the gate has to hand to the row path. \
         Oracle: the same statement with the gate forced off through the verif hook (row path), a semantically equal rewrite the gate rejects (derived table / OR (1=0)), and direct assertions \
         (COUNT never NULL). Non-trivial = the hook counter shows the columnar path produced the result AND (some NULL in the table, or empty/filtered-out input). \
         Distinct = hash of the case."
            .into()
    }
    fn assumptions(&self) -> Vec<String> {
        vec!["the row path is the reference of this property; its own agreement with the SQL definitions is decided by C07".into()]
    }
    fn floors(&self) -> Vec<(&'static str, f64)> {
        vec![("columnar_path_taken", 0.6)]
    }
    fn cases(&self, tier: Tier) -> u64 {
        match tier {
            Tier::Quick => 300_000,
            Tier::Thorough => 8_000_000,
        }
    }
    fn tape_len(&self, _t: Tier) -> usize {
        700
    }
    fn build(&self, t: &mut Tape, cfg: &GenCfg) -> Case {
        let mut excluded = 0;
        let mut c = AggGenCfg {
            max_rows: 40,
            gate_only: true,
            allow_having: true,
            allow_limit: true,
            allow_strings: true,
            allow_nulls: true,
            allow_empty: true,
            allow_arith_args: true,
            allow_distinct: false,
            big_tables: if cfg.tier == Tier::Thorough { 6 } else { 50 },
            exact_floats: cfg.avoiding("c03.columnar_vs_row.float_f32_precision") || cfg.avoiding("c03.columnar_vs_row.float_where_epsilon"),
        };
        for (sig, f) in [
            ("c03.columnar_vs_row.having", 0),
            ("c03.columnar_vs_row.limit_offset", 1),
            ("c03.columnar_vs_row.empty_input", 2),
            ("c03.columnar_vs_row.string_minmax", 3),
            ("c03.columnar_vs_row.null_in_aggregated_column", 4),
            ("c03.columnar_vs_row.null_in_other_column", 4),
        ] {
            if cfg.avoiding(sig) {
                excluded += 1;
                match f {
                    0 => c.allow_having = false,
                    1 => c.allow_limit = false,
                    2 => c.allow_empty = false,
                    3 => c.allow_strings = false,
                    _ => c.allow_nulls = false,
                }
            }
        }
        // HAVING / LIMIT / OFFSET are handed to the row path by the gate (since a51c6307): keep a
        // share of them to see that they stay there, most of the budget goes through the gate
        c.allow_having &= t.chance(1, 3);
        c.allow_limit &= t.chance(1, 3);
        let table = gen_table(t, &c);
        let query = gen_query(t, &table, &c);
        Case { table, query, dodge: t.below(2) as u8, excluded, exact: c.exact_floats }
    }
    fn render(&self, c: &Case) -> String {
        let mut s: Vec<String> = c.table.setup_sql().iter().map(|x| vcore::runner::truncate(x, 1500)).collect();
        s.push(c.query.render(&c.table, Dodge::None));
        s.join(";\n")
    }
    fn run(&self, case: &Case, obs: &mut Obs) -> Verdict {
        let db = match load(&case.table) {
            Ok(d) => d,
            Err(e) => return Verdict::Harness(e),
        };
        let q = &case.query;
        let t = &case.table;
        let sql = q.render(t, Dodge::None);
        let m = model(t, q);
        obs.excluded = case.excluded as u64;
        let feat = feature(t, q, &m, case.exact);
        obs.class(&format!("feature:{}", feat));
        // columnar on
        vibesql_executor::verif_hooks::set_columnar_off(false);
        let taken0 = vibesql_executor::verif_hooks::columnar_taken();
        let on = engine::query(&db, &sql);
        let columnar = vibesql_executor::verif_hooks::columnar_taken() > taken0;
        // gate forced off
        vibesql_executor::verif_hooks::set_columnar_off(true);
        let off = engine::query(&db, &sql);
        vibesql_executor::verif_hooks::set_columnar_off(false);
        // rewrite that the gate rejects
        let dodge = if case.dodge == 0 { Dodge::Derived } else { Dodge::OrFalse };
        let dsql = q.render(t, dodge);
        let taken1 = vibesql_executor::verif_hooks::columnar_taken();
        let dg = engine::query(&db, &dsql);
        let dodge_columnar = vibesql_executor::verif_hooks::columnar_taken() > taken1;
        obs.sub_evals = 3;
        if columnar {
            obs.class("columnar_path_taken");
        }
        if dodge_columnar {
            obs.class("rewrite_still_columnar");
        }
        let has_null = t.rows.iter().flatten().any(|v| *v == vcore::val::V::Null);
        obs.nontrivial = columnar && (has_null || m.filtered == 0);
        let show = |r: &Result<Vec<vcore::val::CRow>, engine::ExecErr>| match r {
            Ok(rows) => show_rows(rows, 20),
            Err(e) => format!("  ERROR {}\n", e.text()),
        };
        let same = |a: &Result<Vec<vcore::val::CRow>, engine::ExecErr>, b: &Result<Vec<vcore::val::CRow>, engine::ExecErr>| match (a, b) {
            (Ok(x), Ok(y)) => rows_match(x, y),
            (Err(_), Err(_)) => true,
            _ => false,
        };
        if !same(&on, &off) {
            return Verdict::fail(
                format!("c03.columnar_vs_row.{}", feat),
                format!("{}\ncolumnar path taken: {}\nwith the gate on:\n{}with the gate off (row path):\n{}model:\n{}", sql, columnar, show(&on), show(&off), show_rows(&m.rows, 20)),
            );
        }
        if !dodge_columnar && !same(&off, &dg) {
            return Verdict::fail(
                format!("c03.row_path_rewrite.{}", if !case.exact { float_feature(t, q) } else if has_double_avg(t, q) || (t.rows.len() > 256 && is_double(t, &agg_cols(q))) { "float_f32_precision" } else { "plain" }),
                format!("row path: {}\n{}rewrite: {}\n{}", sql, show(&off), dsql, show(&dg)),
            );
        }
        // direct assertions of the statement on the fast path's answer
        if let (Ok(rows), true) = (&on, columnar) {
            for r in rows {
                for (a, v) in q.aggs.iter().zip(r.iter()) {
                    if a.f == vcore::sql::ir::AggFn::Count && matches!(v, CV::Null) {
                        return Verdict::fail(format!("c03.count_is_null.{}", feat), format!("{}\n{}", sql, show_rows(rows, 5)));
                    }
                }
            }
        }
        Verdict::Pass
    }
}
