//! C05 — join ordering, join algorithms and subquery rewrites preserve query meaning.
//!
//! Every member of a rewrite family is compared with the definitional nested evaluation
//! computed by the harness from the table contents.

use crate::agg::{gen_where, holds, ATable, APred, AggGenCfg};
use serde::{Deserialize, Serialize};
use vcore::engine;
use vcore::sql::ir::ColTy;
use vcore::val::{multiset_eq, show_rows, CRow, CV, V};
use vcore::{Check, GenCfg, Obs, Tape, Tier, Verdict};

pub struct C05;

#[derive(Clone, Debug, Serialize, Deserialize)]
pub enum Family {
    /// inner join of 2-3 tables: equalities (ta, ca, tb, cb), per-table filters, projection
    Join {
        eqs: Vec<(usize, usize, usize, usize)>,
        filters: Vec<(usize, APred)>,
        proj: Vec<(usize, usize)>,
        /// extra WHERE conjunct `(A1 AND B1) OR (A2 AND B2) ..` with Ai over table 0 and Bi over table 1
        /// (the shape from which per-table filters are derived for pushdown)
        #[serde(default)]
        or_branches: Vec<(APred, APred)>,
    },
    /// semi / anti join of table 0 against table 1 on (ka, kb) with optional inner filter
    Semi { ka: usize, kb: usize, inner: Option<APred>, outer: Option<APred>, anti: bool },
}

#[derive(Clone, Debug, Serialize, Deserialize)]
pub struct Case {
    pub tables: Vec<ATable>,
    pub family: Family,
    /// index on the inner key column (table 1) for Semi, on a join column for Join
    pub index: Option<(usize, usize)>,
    /// which tables are wrapped as (SELECT * FROM t) AS t in the wrapped variants
    pub wrap: Vec<bool>,
}

fn tname(i: usize) -> String {
    format!("t{}", i)
}

fn setup(case: &Case) -> Vec<String> {
    let mut v = Vec::new();
    for (i, t) in case.tables.iter().enumerate() {
        v.push(format!("CREATE TABLE {} ({})", tname(i), t.cols.iter().map(|(n, ty)| format!("{} {}", n, ty.sql())).collect::<Vec<_>>().join(", ")));
        for chunk in t.rows.chunks(50) {
            v.push(vcore::sql::ir::insert_sql(&tname(i), None, chunk, vcore::sql::ir::Dialect::Vibe));
        }
    }
    if let Some((ti, ci)) = case.index {
        v.push(format!("CREATE INDEX ixk ON {} ({})", tname(ti), case.tables[ti].cols[ci].0));
    }
    v
}

fn cv(v: &V) -> CV {
    CV::from_sql(&v.to_sql())
}

fn eq_nonnull(a: &V, b: &V) -> bool {
    if *a == V::Null || *b == V::Null {
        return false;
    }
    cv(a).same(&cv(b), 0.0)
}

fn passes(f: &Option<APred>, row: &[V]) -> bool {
    f.as_ref().map(|p| holds(p, row) == Some(true)).unwrap_or(true)
}

/// (kind, sql) members of the family; the model is computed separately
fn members(case: &Case) -> Vec<(&'static str, String)> {
    let tabs = &case.tables;
    let col = |t: usize, c: usize| tabs[t].cols[c].0.clone();
    let from_item = |i: usize, wrapped: bool| if wrapped && case.wrap[i] { format!("(SELECT * FROM {}) AS {}", tname(i), tname(i)) } else { tname(i) };
    let mut out = Vec::new();
    match &case.family {
        Family::Join { eqs, filters, proj, or_branches } => {
            let n = tabs.len();
            let sel = proj.iter().map(|(t, c)| col(*t, *c)).collect::<Vec<_>>().join(", ");
            let eq_sql: Vec<String> = eqs.iter().map(|(ta, ca, tb, cb)| format!("({} = {})", col(*ta, *ca), col(*tb, *cb))).collect();
            let mut f_sql: Vec<String> = filters.iter().map(|(t, p)| p.render(&tabs[*t])).collect();
            if !or_branches.is_empty() {
                f_sql.push(format!("({})", or_branches.iter().map(|(a, b)| format!("({} AND {})", a.render(&tabs[0]), b.render(&tabs[1]))).collect::<Vec<_>>().join(" OR ")));
            }
            let mut all = eq_sql.clone();
            all.extend(f_sql.clone());
            let where_all = if all.is_empty() { String::new() } else { format!(" WHERE {}", all.join(" AND ")) };
            // comma list in every permutation
            let perms: Vec<Vec<usize>> = if n == 2 { vec![vec![0, 1], vec![1, 0]] } else { vec![vec![0, 1, 2], vec![0, 2, 1], vec![1, 0, 2], vec![1, 2, 0], vec![2, 0, 1], vec![2, 1, 0]] };
            for p in &perms {
                out.push(("comma_perm", format!("SELECT {} FROM {}{}", sel, p.iter().map(|&i| from_item(i, false)).collect::<Vec<_>>().join(", "), where_all)));
            }
            // cross joins + WHERE
            out.push(("cross_where", format!("SELECT {} FROM {}{}", sel, (0..n).map(|i| from_item(i, false)).collect::<Vec<_>>().join(" CROSS JOIN "), where_all)));
            // explicit INNER JOIN chain: table i joins with ON = equalities whose tables are both available
            let mut from = from_item(0, false);
            let mut used: Vec<usize> = Vec::new();
            let mut ok = true;
            for i in 1..n {
                let conds: Vec<String> = eqs
                    .iter()
                    .enumerate()
                    .filter(|(k, (ta, _, tb, _))| !used.contains(k) && *ta <= i && *tb <= i && (*ta == i || *tb == i))
                    .map(|(_, (ta, ca, tb, cb))| format!("({} = {})", col(*ta, *ca), col(*tb, *cb)))
                    .collect();
                for (k, (ta, _, tb, _)) in eqs.iter().enumerate() {
                    if *ta <= i && *tb <= i && (*ta == i || *tb == i) {
                        used.push(k);
                    }
                }
                if conds.is_empty() {
                    ok = false;
                    break;
                }
                from = format!("{} INNER JOIN {} ON {}", from, from_item(i, false), conds.join(" AND "));
            }
            if ok {
                let w = if f_sql.is_empty() { String::new() } else { format!(" WHERE {}", f_sql.join(" AND ")) };
                out.push(("inner_join", format!("SELECT {} FROM {}{}", sel, from, w)));
                // filters moved into the ON clause of the last join
                if !f_sql.is_empty() {
                    out.push(("inner_join_filter_in_on", format!("SELECT {} FROM {} AND {}", sel, from, f_sql.join(" AND "))));
                }
            }
            // derived-table wrapping
            if case.wrap.iter().any(|w| *w) {
                out.push(("derived_wrap", format!("SELECT {} FROM {}{}", sel, (0..n).map(|i| from_item(i, true)).collect::<Vec<_>>().join(", "), where_all)));
            }
        }
        Family::Semi { ka, kb, inner, outer, anti } => {
            let a_cols = tabs[0].cols.iter().map(|(n, _)| n.clone()).collect::<Vec<_>>().join(", ");
            let ka_s = col(0, *ka);
            let kb_s = col(1, *kb);
            let inner_s = inner.as_ref().map(|p| p.render(&tabs[1]));
            let outer_s = outer.as_ref().map(|p| p.render(&tabs[0]));
            let and_outer = |s: String| match &outer_s {
                Some(o) => format!("{} AND {}", s, o),
                None => s,
            };
            let sub_where = |extra: Option<String>| {
                let mut parts: Vec<String> = Vec::new();
                if let Some(e) = extra {
                    parts.push(e);
                }
                if let Some(i) = &inner_s {
                    parts.push(i.clone());
                }
                if parts.is_empty() {
                    String::new()
                } else {
                    format!(" WHERE {}", parts.join(" AND "))
                }
            };
            let a_from = |wrapped: bool| from_item(0, wrapped);
            let b_from = |wrapped: bool| from_item(1, wrapped);
            if !*anti {
                out.push(("in_subquery", format!("SELECT {} FROM {} WHERE {}", a_cols, a_from(false), and_outer(format!("{} IN (SELECT {} FROM {}{})", ka_s, kb_s, b_from(false), sub_where(None))))));
                out.push(("exists", format!("SELECT {} FROM {} WHERE {}", a_cols, a_from(false), and_outer(format!("EXISTS (SELECT 1 FROM {}{})", b_from(false), sub_where(Some(format!("{} = {}", kb_s, ka_s))))))));
                // alias-qualified correlation: the shape the EXISTS -> IN decorrelation looks for
                out.push((
                    "exists_aliased",
                    format!(
                        "SELECT {} FROM {} WHERE {}",
                        a_cols,
                        a_from(false),
                        and_outer(format!("EXISTS (SELECT 1 FROM {} AS s{})", tname(1), sub_where(Some(format!("s.{} = {}.{}", kb_s, tname(0), ka_s)))))
                    ),
                ));
                out.push((
                    "join_distinct",
                    format!(
                        "SELECT {} FROM {} INNER JOIN (SELECT DISTINCT {} FROM {}{}) AS d ON ({} = d.{}){}",
                        a_cols,
                        a_from(false),
                        kb_s,
                        b_from(false),
                        sub_where(None),
                        ka_s,
                        kb_s,
                        outer_s.as_ref().map(|o| format!(" WHERE {}", o)).unwrap_or_default()
                    ),
                ));
                if case.wrap.iter().any(|w| *w) {
                    out.push(("in_subquery_derived_wrap", format!("SELECT {} FROM {} WHERE {}", a_cols, a_from(true), and_outer(format!("{} IN (SELECT {} FROM {}{})", ka_s, kb_s, b_from(true), sub_where(None))))));
                }
            } else {
                out.push(("not_exists", format!("SELECT {} FROM {} WHERE {}", a_cols, a_from(false), and_outer(format!("NOT EXISTS (SELECT 1 FROM {}{})", b_from(false), sub_where(Some(format!("{} = {}", kb_s, ka_s))))))));
                out.push((
                    "not_exists_aliased",
                    format!(
                        "SELECT {} FROM {} WHERE {}",
                        a_cols,
                        a_from(false),
                        and_outer(format!("NOT EXISTS (SELECT 1 FROM {} AS s{})", tname(1), sub_where(Some(format!("s.{} = {}.{}", kb_s, tname(0), ka_s)))))
                    ),
                ));
                // the same predicate written as NOT (EXISTS ...): parsed as a unary NOT, which sends it
                // through the EXISTS -> IN decorrelation instead of the anti-join
                out.push((
                    "not_exists_parenthesized",
                    format!(
                        "SELECT {} FROM {} WHERE {}",
                        a_cols,
                        a_from(false),
                        and_outer(format!("(NOT (EXISTS (SELECT 1 FROM {} AS s{})))", tname(1), sub_where(Some(format!("s.{} = {}.{}", kb_s, tname(0), ka_s)))))
                    ),
                ));
                // LEFT JOIN ... IS NULL needs a NOT NULL witness column of B: use a constant from a derived table
                out.push((
                    "left_join_is_null",
                    format!(
                        "SELECT {} FROM {} LEFT JOIN (SELECT DISTINCT {} AS dk, 1 AS w FROM {}{}) AS d ON ({} = d.dk) WHERE {}",
                        a_cols,
                        a_from(false),
                        kb_s,
                        b_from(false),
                        sub_where(None),
                        ka_s,
                        and_outer("d.w IS NULL".to_string())
                    ),
                ));
                out.push(("not_in_subquery", format!("SELECT {} FROM {} WHERE {}", a_cols, a_from(false), and_outer(format!("{} NOT IN (SELECT {} FROM {}{})", ka_s, kb_s, b_from(false), sub_where(None))))));
            }
            // correlation equality written after the other inner predicate
            if let Some(i) = &inner_s {
                let neg = if *anti { "NOT " } else { "" };
                out.push((if *anti { "not_exists_corr_last" } else { "exists_corr_last" }, format!("SELECT {} FROM {} WHERE {}", a_cols, a_from(false), and_outer(format!("{}EXISTS (SELECT 1 FROM {} WHERE {} AND {} = {})", neg, b_from(false), i, kb_s, ka_s)))));
                out.push((
                    if *anti { "not_exists_aliased_corr_last" } else { "exists_aliased_corr_last" },
                    format!("SELECT {} FROM {} WHERE {}", a_cols, a_from(false), and_outer(format!("{}EXISTS (SELECT 1 FROM {} AS s WHERE {} AND s.{} = {}.{})", neg, tname(1), i, kb_s, tname(0), ka_s))),
                ));
            }
            // membership as a GROUP BY expression (reaches the index-backed IN evaluation without DISTINCT)
            out.push((
                "in_group_by_count",
                format!(
                    "SELECT COUNT(*) FROM {}{} GROUP BY ({} {}IN (SELECT {} FROM {}{}))",
                    a_from(false),
                    outer_s.as_ref().map(|o| format!(" WHERE {}", o)).unwrap_or_default(),
                    ka_s,
                    if *anti { "NOT " } else { "" },
                    kb_s,
                    b_from(false),
                    sub_where(None)
                ),
            ));
        }
    }
    out
}

/// definitional results: (model for the family, model for NOT IN which has its own NULL semantics)
fn model(case: &Case) -> (Vec<CRow>, Option<Vec<CRow>>, Option<Vec<CRow>>) {
    let tabs = &case.tables;
    match &case.family {
        Family::Join { eqs, filters, proj, or_branches } => {
            let n = tabs.len();
            let keep: Vec<Vec<&Vec<V>>> = (0..n)
                .map(|i| tabs[i].rows.iter().filter(|r| filters.iter().filter(|(t, _)| *t == i).all(|(_, p)| holds(p, r) == Some(true))).collect())
                .collect();
            let mut out = Vec::new();
            let mut idx = vec![0usize; n];
            if keep.iter().any(|k| k.is_empty()) {
                return (out, None, None);
            }
            'outer: loop {
                let rows: Vec<&Vec<V>> = (0..n).map(|i| keep[i][idx[i]]).collect();
                let or_ok = or_branches.is_empty() || or_branches.iter().any(|(a, b)| holds(a, rows[0]) == Some(true) && holds(b, rows[1]) == Some(true));
                if or_ok && eqs.iter().all(|(ta, ca, tb, cb)| eq_nonnull(&rows[*ta][*ca], &rows[*tb][*cb])) {
                    out.push(proj.iter().map(|(t, c)| cv(&rows[*t][*c])).collect());
                }
                for i in (0..n).rev() {
                    idx[i] += 1;
                    if idx[i] < keep[i].len() {
                        continue 'outer;
                    }
                    idx[i] = 0;
                    if i == 0 {
                        break 'outer;
                    }
                }
            }
            (out, None, None)
        }
        Family::Semi { ka, kb, inner, outer, anti } => {
            let b_keys: Vec<&V> = tabs[1].rows.iter().filter(|r| passes(inner, r)).map(|r| &r[*kb]).collect();
            let mut out = Vec::new();
            let mut not_in = Vec::new();
            for a in tabs[0].rows.iter().filter(|r| passes(outer, r)) {
                let exists = b_keys.iter().any(|k| eq_nonnull(&a[*ka], k));
                if exists != *anti {
                    out.push(a.iter().map(cv).collect::<CRow>());
                }
                if *anti {
                    // x NOT IN (S): TRUE iff S is empty, or x is non-NULL and no element equals x and S has no NULL
                    let t = if b_keys.is_empty() { true } else { a[*ka] != V::Null && !exists && !b_keys.iter().any(|k| **k == V::Null) };
                    if t {
                        not_in.push(a.iter().map(cv).collect::<CRow>());
                    }
                }
            }
            // COUNT(*) .. GROUP BY (x [NOT] IN (S)): one group per three-valued result
            let mut counts = [0i128; 3];
            for a in tabs[0].rows.iter().filter(|r| passes(outer, r)) {
                let tv = if b_keys.iter().any(|k| eq_nonnull(&a[*ka], k)) {
                    0
                } else if b_keys.is_empty() {
                    1
                } else if a[*ka] == V::Null || b_keys.iter().any(|k| **k == V::Null) {
                    2
                } else {
                    1
                };
                counts[tv] += 1;
            }
            let groups: Vec<CRow> = counts.iter().filter(|c| **c > 0).map(|c| vec![CV::Int(*c)]).collect();
            (out, if *anti { Some(not_in) } else { None }, Some(groups))
        }
    }
}

impl Check for C05 {
    type Case = Case;
    fn id(&self) -> &'static str {
        "C05"
    }
    fn rule(&self) -> String {
        "2-3 tables (INTEGER/VARCHAR columns with globally unique names, 0-10 rows, NULL and duplicate join keys, empty sides). Join family: equalities between columns of different tables + per-table filters, written as \
         every permutation of the comma list, CROSS JOIN + WHERE, INNER JOIN ... ON chain (filters in WHERE or in ON), and with tables wrapped as derived tables. Semi family: IN (subquery) / EXISTS / JOIN (SELECT DISTINCT ..), \
         anti family: NOT EXISTS / LEFT JOIN .. IS NULL / NOT IN (compared with its own three-valued definition), with and without an index on the inner key. \
         Oracle: the definitional nested evaluation computed by the harness; every member must return that multiset. Non-trivial = the family has >= 3 members, the model result is non-empty and a join/key column holds a NULL or a duplicate. \
         Distinct = hash of the case."
            .into()
    }
    fn assumptions(&self) -> Vec<String> {
        vec!["join equality is SQL equality (NULL never matches); the model is ~60 lines of nested loops over the generated rows".into()]
    }
    fn cases(&self, tier: Tier) -> u64 {
        match tier {
            Tier::Quick => 150_000,
            Tier::Thorough => 6_000_000,
        }
    }
    fn tape_len(&self, _t: Tier) -> usize {
        700
    }
    fn build(&self, t: &mut Tape, cfg: &GenCfg) -> Case {
        let semi_ok = !(cfg.avoiding("c05.member.in_subquery") && cfg.avoiding("c05.member.exists") && cfg.avoiding("c05.member.not_exists") && cfg.avoiding("c05.member.not_in_subquery"));
        let semi = semi_ok && t.chance(2, 5);
        let nt = if semi { 2 } else { t.range(2, 3) as usize };
        let c = AggGenCfg {
            max_rows: 10,
            gate_only: false,
            allow_having: false,
            allow_limit: false,
            allow_strings: true,
            allow_nulls: true,
            allow_empty: true,
            allow_arith_args: false,
            allow_distinct: false,
            big_tables: 0,
            exact_floats: true,
        };
        let mut tables = Vec::new();
        for i in 0..nt {
            // INTEGER / VARCHAR only, unique names t{i}_{letter}
            let ncols = t.range(2, 4) as usize;
            let mut cols = Vec::new();
            for k in 0..ncols {
                let ty = if k == 0 || t.chance(2, 3) { ColTy::Int } else { ColTy::Varchar(12) };
                cols.push((format!("t{}_{}", i, ["a", "b", "c", "d"][k]), ty));
            }
            let dens: Vec<u32> = cols.iter().map(|_| *t.pick(&[2u32, 0, 6, 0])).collect();
            let nr = match t.weighted(&[8, 1, 1]) {
                0 => t.range(2, c.max_rows as i64) as usize,
                1 => 0,
                _ => 1,
            };
            let rows = (0..nr).map(|_| cols.iter().enumerate().map(|(k, (_, ty))| vcore::sql::gen::gen_cell(t, ty, dens[k])).collect()).collect();
            tables.push(ATable { cols, rows });
        }
        let int_cols = |tb: &ATable| -> Vec<usize> { (0..tb.cols.len()).filter(|&k| tb.cols[k].1 == ColTy::Int).collect() };
        let family = if semi {
            let ia = int_cols(&tables[0]);
            let ib = int_cols(&tables[1]);
            Family::Semi {
                ka: ia[t.below(ia.len())],
                kb: ib[t.below(ib.len())],
                inner: if t.chance(1, 3) { Some(gen_where(t, &tables[1], true, true)) } else { None },
                outer: if t.chance(1, 4) { Some(gen_where(t, &tables[0], true, true)) } else { None },
                anti: t.chance(1, 2),
            }
        } else {
            let mut eqs = Vec::new();
            for i in 1..nt {
                // connect table i with an earlier table on same-typed columns
                let j = t.below(i);
                let cj = t.below(tables[j].cols.len());
                let ty = tables[j].cols[cj].1.clone();
                let cands: Vec<usize> = (0..tables[i].cols.len()).filter(|&k| tables[i].cols[k].1 == ty).collect();
                if cands.is_empty() {
                    eqs.push((j, 0, i, 0));
                } else {
                    eqs.push((j, cj, i, cands[t.below(cands.len())]));
                }
            }
            let mut filters = Vec::new();
            for i in 0..nt {
                if t.chance(1, 3) {
                    filters.push((i, gen_where(t, &tables[i], true, true)));
                }
            }
            let np = t.range(1, 3) as usize;
            let proj = (0..np)
                .map(|_| {
                    let ti = t.below(nt);
                    (ti, t.below(tables[ti].cols.len()))
                })
                .collect();
            let or_branches = if cfg.avoiding("c05.member.or_of_ands") || !t.chance(1, 4) {
                vec![]
            } else {
                (0..t.range(2, 3)).map(|_| (gen_where(t, &tables[0], false, true), gen_where(t, &tables[1], false, true))).collect()
            };
            Family::Join { eqs, filters, proj, or_branches }
        };
        let index = if t.chance(1, 2) {
            match &family {
                Family::Semi { kb, .. } => Some((1, *kb)),
                Family::Join { eqs, .. } => eqs.first().map(|e| (e.2, e.3)),
            }
        } else {
            None
        };
        let wrap = (0..nt).map(|_| t.chance(1, 2)).collect();
        Case { tables, family, index, wrap }
    }
    fn render(&self, c: &Case) -> String {
        let mut s = setup(c);
        for (k, q) in members(c) {
            s.push(format!("-- {}\n{}", k, q));
        }
        s.join(";\n")
    }
    fn run(&self, case: &Case, obs: &mut Obs) -> Verdict {
        let mut db = vibesql_storage::Database::new();
        for st in setup(case) {
            if let Err(e) = engine::exec(&mut db, &st) {
                return Verdict::Harness(format!("vibesql rejected setup statement `{}`: {}", vcore::runner::truncate(&st, 300), e.text()));
            }
        }
        let (m, m_not_in, m_groups) = model(case);
        let ms = members(case);
        let key_feature = match &case.family {
            Family::Join { eqs, .. } => eqs.iter().any(|(ta, ca, tb, cb)| {
                let has = |t: usize, c: usize| {
                    let vals: Vec<&V> = case.tables[t].rows.iter().map(|r| &r[c]).collect();
                    vals.iter().any(|v| **v == V::Null) || (0..vals.len()).any(|i| vals[..i].contains(&vals[i]))
                };
                has(*ta, *ca) || has(*tb, *cb)
            }),
            Family::Semi { ka, kb, .. } => {
                case.tables[0].rows.iter().any(|r| r[*ka] == V::Null) || case.tables[1].rows.iter().any(|r| r[*kb] == V::Null) || {
                    let v: Vec<&V> = case.tables[1].rows.iter().map(|r| &r[*kb]).collect();
                    (0..v.len()).any(|i| v[..i].contains(&v[i]))
                }
            }
        };
        obs.class(match &case.family {
            Family::Join { .. } => "family:join",
            Family::Semi { anti: false, .. } => "family:semi",
            Family::Semi { anti: true, .. } => "family:anti",
        });
        if case.index.is_some() {
            obs.class("indexed_key");
        }
        obs.nontrivial = ms.len() >= 3 && !m.is_empty() && key_feature;
        for (kind, sql) in &ms {
            obs.sub_evals += 1;
            let expect = match *kind {
                "not_in_subquery" => m_not_in.as_ref().unwrap_or(&m),
                "in_group_by_count" => m_groups.as_ref().unwrap_or(&m),
                _ => &m,
            };
            let sig = format!("c05.member.{}", kind);
            if vcore::kf::is_open_global(&sig) && std::env::var("VERIF_C05_ALL").is_err() {
                // recorded defect of this member: run it, record the hit, but keep checking the other members
                let bad = match engine::query(&db, sql) {
                    Ok(got) => !multiset_eq(expect, &got, 1e-9),
                    Err(_) => true,
                };
                if bad && !obs.known_hits.contains(&sig) {
                    obs.known_hits.push(sig);
                }
                continue;
            }
            match engine::query(&db, sql) {
                Err(e) => return Verdict::fail(sig, format!("{}\n{}\nmodel:\n{}", sql, e.text(), show_rows(expect, 20))),
                Ok(got) => {
                    if !multiset_eq(expect, &got, 1e-9) {
                        return Verdict::fail(sig, format!("{}\nexpected (definitional evaluation):\n{}got:\n{}", sql, show_rows(expect, 30), show_rows(&got, 30)));
                    }
                }
            }
        }
        Verdict::Pass
    }
}
