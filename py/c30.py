#!/usr/local/bin/python3-vt
"""C30 -- Python DB-API parameter binding is faithful (Hypothesis check against the pyo3 extension).

usage:  python3-vt /verif/py/c30.py quick|thorough [--strict]
        python3-vt /verif/py/c30.py --replay <file> [--strict]

env:    VERIF_SEED (default 1), VERIF_ROOT (default /verif)
        VERIF_C30_SO        path of an already built extension (.so of the `vibesql` pymodule); when set the
                            cargo build is skipped and this file is imported instead (used for mutation /
                            sensitivity experiments with a scratch worktree)
        VERIF_C30_TARGET    cargo target dir for the extension (default /verif/target/py)
        VERIF_C30_REPO      repository root (default /repo)
        VERIF_C30_EXAMPLES  override the number of Hypothesis examples (development aid)
        VERIF_C30_JOBS      worker processes for the independent 5000-example chunks (default 8; results do not
                            depend on it: every chunk has its own seed derived from VERIF_SEED)

exit:   0 property held on everything explored (known findings are printed as KNOWN-FINDING lines)
        1 violation (stdout line `VIOLATION property=C30 replay=<path>`)
        2 inconclusive (build / import failure, harness inconsistency)

The module is organised as: build glue, value coding, placeholder scanner + reference literal substitution,
the oracle (run_case / judge), the Hypothesis generator, the driver.
"""
import collections
import decimal
import glob
import hashlib
import itertools
import json
import math
import os
import re
import shutil
import subprocess
import sys
import tempfile
import time

PROP = "C30"
ROOT = os.environ.get("VERIF_ROOT", "/verif")
SEED = int(os.environ.get("VERIF_SEED", "1"))
REPO = os.environ.get("VERIF_C30_REPO", "/repo")
TARGET = os.environ.get("VERIF_C30_TARGET", "/verif/target/py")
PYO3_PYTHON = os.environ.get("VERIF_C30_PYO3_PYTHON", "/usr/local/bin/python3-vt")

I64MIN, I64MAX = -2 ** 63, 2 ** 63 - 1


class HarnessError(Exception):
    pass


# --------------------------------------------------------------------------------------------------
# build glue
# --------------------------------------------------------------------------------------------------
def build_and_import():
    """Rebuild the extension from the current working tree of /repo (no-op when unchanged) and import it.
    Returns the module; raises HarnessError on failure."""
    so_override = os.environ.get("VERIF_C30_SO")
    if so_override:
        if not os.path.isfile(so_override):
            raise HarnessError("VERIF_C30_SO does not name a file: %s" % so_override)
        d = tempfile.mkdtemp(prefix="c30_so_")
        shutil.copy(so_override, os.path.join(d, "vibesql.so"))
        moddir = d
    else:
        os.makedirs(TARGET, exist_ok=True)
        env = dict(os.environ)
        env["PYO3_PYTHON"] = PYO3_PYTHON
        env["CARGO_NET_OFFLINE"] = "true"
        env["RUSTC_WRAPPER"] = ""  # /repo/.cargo/config.toml names sccache (not installed)
        cmd = ["cargo", "build", "--release", "--offline",
               "--manifest-path", os.path.join(REPO, "crates/vibesql-python-bindings/Cargo.toml"),
               "--target-dir", TARGET]
        # cwd must be outside /repo so that /repo/.cargo/config.toml is not picked up
        p = subprocess.run(cmd, cwd=TARGET, env=env, stdout=subprocess.PIPE, stderr=subprocess.STDOUT, text=True)
        if p.returncode != 0:
            tail = "\n".join(l for l in p.stdout.splitlines() if not l.startswith("warning"))[-3000:]
            raise HarnessError("cargo build of the python extension failed:\n" + tail)
        lib = os.path.join(TARGET, "release", "libvibesql.so")
        if not os.path.isfile(lib):
            raise HarnessError("built library not found: " + lib)
        # private copy per process: concurrent runs never see a half-written file
        d = tempfile.mkdtemp(prefix="c30_so_")
        shutil.copy(lib, os.path.join(d, "vibesql.so"))
        moddir = d
    sys.path.insert(0, moddir)
    try:
        import vibesql  # noqa
    except Exception as e:  # pragma: no cover
        raise HarnessError("import of the extension failed: %r" % (e,))
    finally:
        try:
            sys.path.remove(moddir)
        except ValueError:
            pass
    shutil.rmtree(moddir, ignore_errors=True)  # the mapping stays valid after unlink
    for attr in ("connect",):
        if not hasattr(vibesql, attr):
            raise HarnessError("extension has no attribute %s" % attr)
    return vibesql


# --------------------------------------------------------------------------------------------------
# value coding (JSON <-> python)
# --------------------------------------------------------------------------------------------------
def enc(v):
    if v is None or isinstance(v, (bool, str)):
        return v
    if isinstance(v, int):
        return {"i": str(v)}
    if isinstance(v, float):
        return {"f": repr(v)}
    raise HarnessError("cannot encode %r" % (v,))


def dec(j):
    if j is None or isinstance(j, (bool, str)):
        return j
    if isinstance(j, dict) and "i" in j:
        return int(j["i"])
    if isinstance(j, dict) and "f" in j:
        return float(j["f"])
    if isinstance(j, int):
        return j
    if isinstance(j, float):
        return j
    raise HarnessError("cannot decode %r" % (j,))


def enc_params(p):
    return None if p is None else [enc(v) for v in p]


def dec_params(p):
    return None if p is None else tuple(dec(v) for v in p)


def is_special_float(v):
    return isinstance(v, float) and (v != v or v in (math.inf, -math.inf))


def is_bigint(v):
    return isinstance(v, int) and not isinstance(v, bool) and not (I64MIN <= v <= I64MAX)


def is_integral_float(v):
    return isinstance(v, float) and not is_special_float(v) and v == int(v) and abs(v) < 2.0 ** 63


def canon(v):
    """typed canonical form: bool/int/float are distinct, NaN == NaN, -0.0 == 0.0 (python equality)."""
    if v is None:
        return ("N",)
    if isinstance(v, bool):
        return ("b", v)
    if isinstance(v, int):
        return ("i", v)
    if isinstance(v, float):
        if v != v:
            return ("f", "nan")
        return ("f", 0.0 if v == 0 else v)
    if isinstance(v, str):
        return ("s", v)
    return ("?", repr(v))


def canon_rows(rows):
    return sorted((tuple(canon(v) for v in r) for r in rows), key=repr)


def natural(v, ctype):
    """does python value v have the natural python type of SQL column type ctype?"""
    if v is None:
        return True
    if isinstance(v, bool):
        return ctype == "BOOLEAN"
    if isinstance(v, int):
        return ctype == "INTEGER"
    if isinstance(v, float):
        return ctype == "DOUBLE"
    if isinstance(v, str):
        return ctype == "VARCHAR"
    return False


# --------------------------------------------------------------------------------------------------
# placeholder scanner and reference literal substitution (the harness's own, mirrors the lexer:
# '...' with '' doubling, "..." and `...` delimited identifiers with doubling, -- comment to end of line)
# --------------------------------------------------------------------------------------------------
def scan_sql(sql):
    """-> (real, masked): positions of `?` that are placeholders, and [(pos, ctx)] of `?` characters that are
    inside a string literal ('str'), a line comment ('comment') or a delimited identifier ('ident')."""
    real, masked = [], []
    i, n = 0, len(sql)
    while i < n:
        ch = sql[i]
        if ch == "'" or ch == '"' or ch == "`":
            ctx = "str" if ch == "'" else "ident"
            i += 1
            while i < n:
                if sql[i] == ch:
                    if i + 1 < n and sql[i + 1] == ch:
                        i += 2
                        continue
                    i += 1
                    break
                if sql[i] == "?":
                    masked.append((i, ctx))
                i += 1
        elif ch == "-" and i + 1 < n and sql[i + 1] == "-":
            while i < n and sql[i] != "\n":
                if sql[i] == "?":
                    masked.append((i, "comment"))
                i += 1
        elif ch == "?":
            real.append(i)
            i += 1
        else:
            i += 1
    return real, masked


def code_mask(sql):
    """sql with every character inside literals/comments/delimited identifiers replaced by a blank
    (same length), so that keyword searches only see code."""
    out = list(sql)
    i, n = 0, len(sql)
    while i < n:
        ch = sql[i]
        if ch == "'" or ch == '"' or ch == "`":
            out[i] = " "
            i += 1
            while i < n:
                if sql[i] == ch:
                    if i + 1 < n and sql[i + 1] == ch:
                        out[i] = out[i + 1] = " "
                        i += 2
                        continue
                    out[i] = " "
                    i += 1
                    break
                out[i] = " "
                i += 1
        elif ch == "-" and i + 1 < n and sql[i + 1] == "-":
            while i < n and sql[i] != "\n":
                out[i] = " "
                i += 1
        else:
            i += 1
    return "".join(out)


class Inexpressible(Exception):
    pass


def lit(v, dev=frozenset()):
    """correct SQL literal of a python value. `dev` names deviations that model a known binding defect
    (used only to attribute a mismatch to a known finding, never as the oracle)."""
    if v is None:
        return "NULL"
    if isinstance(v, bool):
        if "bool" in dev:
            return "1" if v else "0"
        return "TRUE" if v else "FALSE"
    if isinstance(v, int):
        if is_bigint(v):
            raise Inexpressible(v)
        return str(v)
    if isinstance(v, float):
        if is_special_float(v):
            raise Inexpressible(v)
        if "fint" in dev and is_integral_float(v):
            # model of Rust's f64::to_string(): shortest round-trip digits in positional notation, no fraction
            # for integral values (2.0 -> 2, -0.0 -> -0, 5.495285998966933e16 -> 54952859989669330)
            t = format(decimal.Decimal(repr(v)), "f")
            if "." in t:
                t = t.rstrip("0").rstrip(".")
            return t
        return repr(v)
    if isinstance(v, str):
        return "'" + v.replace("'", "''") + "'"
    raise HarnessError("no literal for %r" % (v,))


def substitute(sql, texts):
    """replace the i-th real placeholder by texts[i]"""
    real, _ = scan_sql(sql)
    if len(real) != len(texts):
        raise HarnessError("substitute: arity")
    out, last = [], 0
    for pos, t in zip(real, texts):
        out.append(sql[last:pos])
        out.append(t)
        last = pos + 1
    out.append(sql[last:])
    return "".join(out)


def unmask_sql(sql, ctxs):
    """replace masked `?` of the given contexts by `!` (counterfactual used for attribution)"""
    if not ctxs:
        return sql
    _, masked = scan_sql(sql)
    s = list(sql)
    for pos, ctx in masked:
        if ctx in ctxs:
            s[pos] = "!"
    return "".join(s)


# --------------------------------------------------------------------------------------------------
# light statement analysis (text based, so that hand written replay files work too)
# --------------------------------------------------------------------------------------------------
def parse_schema(ddls):
    """-> {TABLE: [(COLNAME, ctype)]} with ctype in INTEGER/DOUBLE/VARCHAR/BOOLEAN/OTHER"""
    tables = collections.OrderedDict()
    for d in ddls:
        m = re.match(r"\s*CREATE\s+TABLE\s+(\w+)\s*\((.*)\)\s*$", d, re.I | re.S)
        if not m:
            continue
        cols = []
        depth, cur, parts = 0, "", []
        for ch in m.group(2):
            if ch == "(":
                depth += 1
            if ch == ")":
                depth -= 1
            if ch == "," and depth == 0:
                parts.append(cur)
                cur = ""
            else:
                cur += ch
        parts.append(cur)
        for p in parts:
            toks = p.strip().split(None, 1)
            if len(toks) < 2:
                continue
            ty = toks[1].upper()
            if ty.startswith("INTEGER") or ty.startswith("BIGINT") or ty.startswith("INT"):
                ct = "INTEGER"
            elif ty.startswith("DOUBLE"):
                ct = "DOUBLE"
            elif ty.startswith("VARCHAR"):
                ct = "VARCHAR"
            elif ty.startswith("BOOL"):
                ct = "BOOLEAN"
            else:
                ct = "OTHER"
            cols.append((toks[0].upper(), ct))
        tables[m.group(1).upper()] = cols
    return tables


def split_top(s, base):
    """split s at top level commas; returns [(text, start_offset_in_sql)]"""
    parts, depth, cur, start = [], 0, "", 0
    for i, ch in enumerate(s):
        if ch == "(":
            depth += 1
        elif ch == ")":
            depth -= 1
        if ch == "," and depth == 0:
            parts.append((cur, base + start))
            cur, start = "", i + 1
        else:
            cur += ch
    parts.append((cur, base + start))
    return parts


def analyse(sql, tables):
    """-> dict(kind, table, slots=[{where, col, ctype}] one per real placeholder, ...). Unknown shapes give
    kind 'other' and slots with where='unknown' (then only the differential oracle applies)."""
    real, masked = scan_sql(sql)
    code = code_mask(sql)
    up = code.upper()
    info = {"kind": "other", "table": None, "slots": [{"where": "unknown", "col": None, "ctype": None} for _ in real],
            "real": real, "masked": masked}

    def kw(word, start=0):
        m = re.compile(r"\b%s\b" % word).search(up, start)
        return m.start() if m else -1

    first = re.match(r"\s*(\w+)", up)
    head = first.group(1) if first else ""
    wpos = kw("WHERE")

    def where_slot(pos):
        m = re.search(r"(\w+)\s*(=|<>|<=|>=|<|>)\s*$", code[:pos])
        col = m.group(1).upper() if m else None
        ct = None
        if col and info["table"] in tables:
            ct = dict(tables[info["table"]]).get(col)
        return {"where": "where", "col": col, "ctype": ct}

    if head == "SELECT":
        fpos = kw("FROM")
        if fpos < 0:
            info["kind"] = "echo"
            list_end = wpos if wpos >= 0 else len(sql)
        else:
            info["kind"] = "select"
            m = re.match(r"\s*(\w+)", up[fpos + 4:])
            info["table"] = m.group(1) if m else None
            list_end = fpos
        lstart = first.end()
        items = split_top(code[lstart:list_end], lstart)
        info["list"] = []
        star = False
        for text, off in items:
            t = text.strip()
            if t == "*":
                star = True
            info["list"].append((t, off, off + len(text)))
        info["star"] = star
        for si, pos in enumerate(real):
            if pos < list_end:
                idx = None
                for li, (t, a, b) in enumerate(info["list"]):
                    if a <= pos < b:
                        idx = li if t == "?" else None
                info["slots"][si] = {"where": "list", "col": None, "ctype": None, "index": idx}
            elif wpos >= 0 and pos > wpos:
                info["slots"][si] = where_slot(pos)
    elif head == "INSERT":
        m = re.match(r"\s*INSERT\s+INTO\s+(\w+)\s*(\(([^)]*)\))?\s*VALUES\s*\(", up)
        if m:
            info["kind"] = "insert"
            info["table"] = m.group(1)
            tcols = tables.get(info["table"], [])
            if m.group(3) is not None:
                names = [c.strip().upper() for c in m.group(3).split(",")]
            else:
                names = [c for c, _ in tcols]
            vstart = m.end()
            depth, j = 1, vstart
            while j < len(code) and depth > 0:
                if code[j] == "(":
                    depth += 1
                elif code[j] == ")":
                    depth -= 1
                j += 1
            items = split_top(code[vstart:j - 1], vstart)
            info["insert_cols"] = names
            info["insert_items"] = [(t.strip(), a, a + len(t)) for t, a in items]
            tmap = dict(tcols)
            for si, pos in enumerate(real):
                for ii, (t, a, b) in enumerate(info["insert_items"]):
                    if a <= pos < b and ii < len(names):
                        info["slots"][si] = {"where": "values", "col": names[ii], "ctype": tmap.get(names[ii]),
                                             "item": ii, "bare": t == "?"}
    elif head == "UPDATE":
        m = re.match(r"\s*UPDATE\s+(\w+)\s+SET\b", up)
        if m:
            info["kind"] = "update"
            info["table"] = m.group(1)
            tmap = dict(tables.get(info["table"], []))
            send = wpos if wpos >= 0 else len(sql)
            for si, pos in enumerate(real):
                if pos < send:
                    mm = re.search(r"(\w+)\s*=\s*$", code[:pos])
                    col = mm.group(1).upper() if mm else None
                    info["slots"][si] = {"where": "set", "col": col, "ctype": tmap.get(col)}
                else:
                    info["slots"][si] = where_slot(pos)
    elif head == "DELETE":
        m = re.match(r"\s*DELETE\s+FROM\s+(\w+)", up)
        if m:
            info["kind"] = "delete"
            info["table"] = m.group(1)
            for si, pos in enumerate(real):
                if wpos >= 0 and pos > wpos:
                    info["slots"][si] = where_slot(pos)
    return info


# --------------------------------------------------------------------------------------------------
# the oracle
# --------------------------------------------------------------------------------------------------
# explanation atoms -> known-finding signature
SIG = collections.OrderedDict([
    ("cache", "cache.reuses_first_params"),
    ("masked_str", "placeholder_in_string_literal_substituted"),
    ("masked_comment", "placeholder_in_comment_substituted"),
    ("masked_ident", "placeholder_in_quoted_identifier_substituted"),
    ("bool", "bool_bound_as_int"),
    ("fint", "float_integral_bound_as_int_literal"),
    ("special", "float_special_text"),
    ("bigint", "int_beyond_i64_bound_as_float"),
    ("intmin", "int_min_select_list_reads_back_float"),
])
ATOMS = list(SIG.keys())


class Outcome:
    __slots__ = ("status", "exc", "msg", "rows", "rowcount")

    def __init__(self):
        self.status, self.exc, self.msg, self.rows, self.rowcount = "ok", None, None, None, None

    def brief(self):
        if self.status != "ok":
            return "%s(%s: %s)" % (self.status, self.exc, (self.msg or "")[:160])
        return "ok(rows=%s, rowcount=%s)" % (show_rows(self.rows), self.rowcount)


def show_rows(rows):
    if rows is None:
        return "-"
    s = repr([tuple(v[1] if len(v) > 1 else None for v in r) for r in rows])
    return s if len(s) < 300 else s[:300] + "..."


def exec_step(cur, sql, params):
    o = Outcome()
    try:
        if params is None:
            cur.execute(sql)
        else:
            cur.execute(sql, params)
    except (KeyboardInterrupt, SystemExit, MemoryError):
        raise
    except BaseException as e:  # pyo3 PanicException derives from BaseException
        o.status = "panic" if type(e).__name__ == "PanicException" else "raise"
        o.exc, o.msg = type(e).__name__, str(e)
        return o
    try:
        o.rows = canon_rows(cur.fetchall())
    except (KeyboardInterrupt, SystemExit, MemoryError):
        raise
    except BaseException:
        o.rows = None
    try:
        o.rowcount = cur.rowcount
    except BaseException:
        o.rowcount = None
    return o


class Side:
    """one connection with the case's schema and initial rows; observed through its own cursor"""

    def __init__(self, vib, case):
        self.db = vib.connect()
        c = self.db.cursor()
        for s in list(case["schema"]) + list(case.get("setup", [])):
            try:
                c.execute(s)
            except BaseException as e:
                raise HarnessError("setup statement refused: %s :: %s" % (s, e))
        self.obs = self.db.cursor()
        self.cur = self.db.cursor()
        self.tables = list(parse_schema(case["schema"]).keys())

    def dump(self):
        d = {}
        for t in self.tables:
            self.obs.clear_cache()
            try:
                self.obs.execute("SELECT * FROM " + t)
                d[t] = canon_rows(self.obs.fetchall())
            except BaseException as e:
                raise HarnessError("cannot observe table %s: %s" % (t, e))
        return d

    def ref_exec(self, sql):
        self.cur.clear_cache()
        return exec_step(self.cur, sql, None)


def typed_equal(bound, got):
    """`got` (python value read back) equals the bound python value: same python type (bool, int, float,
    str, None are pairwise distinct), equal value, NaN equals NaN."""
    return canon(bound) == canon(got)


def multiset_minus(a, b):
    ca = collections.Counter(a)
    ca.subtract(collections.Counter(b))
    out = []
    for k, n in ca.items():
        if n > 0:
            out.extend([k] * n)
        elif n < 0:
            return None
    return out


def fail(k, relation, detail):
    return {"step": k, "relation": relation, "detail": detail}


def run_case(vib, case, E=frozenset(), stats=None):
    """Execute the case on the parameterised connection P (ONE cursor) and on the reference connection R.
    E is a set of explanation atoms (see SIG) under which the run is evaluated:
      cache          clear the cursor's statement cache before every execute
      masked_<ctx>   `?` inside string literals / comments / delimited identifiers replaced by `!`
      bool, fint     the reference literal models the defect (TRUE->1, 2.0->2)
      special/bigint steps with NaN/inf / ints outside i64 are not judged (the case ends there)
      intmin         the read-back check ignores -2^63 in a select list
    Returns {"fail": None | {step, relation, detail}, "verified": n, "ended": reason|None}"""
    tables = parse_schema(case["schema"])
    P, R = Side(vib, case), Side(vib, case)
    cur = P.db.cursor()
    dumpP, dumpR = P.dump(), R.dump()
    if dumpP != dumpR:
        raise HarnessError("the two connections differ after identical setup")
    dev = frozenset(a for a in ("bool", "fint") if a in E)
    unmask = set(a[len("masked_"):] for a in E if a.startswith("masked_"))
    verified = 0
    res = {"fail": None, "verified": 0, "ended": None}

    def cls(label):
        if stats is not None:
            stats[label] += 1

    for k, st in enumerate(case["steps"]):
        sql = unmask_sql(st["sql"], unmask)
        params = dec_params(st.get("params"))
        info = analyse(sql, tables)
        nreal = len(info["real"])
        if "cache" in E:
            cur.clear_cache()
        outP = exec_step(cur, sql, params)
        newP = P.dump()
        res["verified"] = verified

        def ctxt():
            return "step %d sql=%r params=%r :: param side %s" % (k, sql, params, outP.brief())

        # P raising must never change the database
        if outP.status != "ok" and newP != dumpP:
            res["fail"] = fail(k, "raise_changed_state", ctxt())
            return res

        # ---- A. wrong number of parameters: must be refused
        nparams = 0 if params is None else len(params)
        if nparams != nreal:
            cls("step:arity_fault")
            if outP.status == "ok":
                res["fail"] = fail(k, "arity_not_rejected", ctxt() + " :: %d placeholders, %d parameters" % (nreal, nparams))
                return res
            continue

        x_tolerated = False

        def xfail(f):
            if x_tolerated:
                res["ended"] = "failing judgement of an inexpressible value tolerated under %s" % sorted(E)
            else:
                res["fail"] = f
            return res

        plist = list(params or ())
        xs = [i for i, v in enumerate(plist) if is_special_float(v) or is_bigint(v)]
        # ---- B. values that have no literal (NaN, +-inf, ints outside i64): raises or round-trips
        if xs:
            kinds = set("special" if is_special_float(plist[i]) else "bigint" for i in xs)
            cls("step:inexpressible")
            # under E >= kinds a failing judgement of this step is tolerated (the case ends there); steps that
            # pass are treated exactly as in the plain run, so that E never "explains" a later failure by merely
            # cutting the case short
            x_tolerated = kinds <= E
            relname = "inexpressible." + "+".join(sorted(kinds))
            if outP.status != "ok":
                cls("step:inexpressible_raises")
                continue  # refused, state unchanged (checked above); R untouched
            slots = info["slots"]
            if info["kind"] in ("echo", "select") and all(slots[i]["where"] == "list" for i in xs) and info["kind"] == "echo":
                bad = readback_list(info, plist, outP, E)
                if bad:
                    return xfail(fail(k, relname + ".readback", ctxt() + " :: " + bad))
                if newP != dumpP:
                    return xfail(fail(k, relname + ".state_changed", ctxt()))
                verified += 1
                continue
            if info["kind"] == "insert":
                bad = readback_insert(info, tables, plist, dumpP, newP, E, only=None)
                if bad:
                    return xfail(fail(k, relname + ".readback", ctxt() + " :: " + bad))
                res["verified"] = verified + 1
                res["ended"] = "row with inexpressible value stored; reference cannot follow"
                return res
            if info["kind"] == "update" and all(slots[i]["where"] == "set" and slots[i]["ctype"] in ("INTEGER", "DOUBLE") for i in xs):
                # sentinel: the set of updated rows does not depend on the assigned value (no constraints)
                present = set(v for rows in dumpP.values() for r in rows for v in r)
                texts, expect = [], {}
                try:
                    for i, v in enumerate(plist):
                        if i in xs:
                            ct = slots[i]["ctype"]
                            s = 123456.71875 + 16 * i if ct == "DOUBLE" else 1234567 + i
                            while canon(s) in present or canon(s) in expect:
                                s += 1
                            want = v if ct == "INTEGER" or isinstance(v, float) else float(v)
                            expect[canon(s)] = canon(want)
                            texts.append(lit(s))
                        else:
                            texts.append(lit(v, dev))
                except Inexpressible:
                    raise HarnessError("sentinel literal")
                outR = R.ref_exec(substitute(sql, texts))
                newR = R.dump()
                mapped = {t: sorted([tuple(expect.get(v, v) for v in r) for r in rows], key=repr) for t, rows in newR.items()}
                if outR.status != "ok":
                    res["ended"] = "inexpressible value in SET: reference with a stand-in raises; not judged"
                    return res
                if mapped != newP or outR.rowcount != outP.rowcount:
                    return xfail(fail(k, relname + ".update_differs", ctxt() + " :: expected tables %r got %r" % (mapped, newP)))
                res["verified"] = verified + 1
                res["ended"] = "inexpressible value stored by UPDATE; reference cannot follow"
                return res
            if (kinds == {"special"} and all(plist[i] == plist[i] for i in xs)
                    and all(slots[i]["where"] == "where" and slots[i]["ctype"] in ("INTEGER", "DOUBLE") for i in xs)
                    and all(abs(v[1]) <= 1e30 for rows in dumpP.values() for r in rows for v in r if v[0] in ("i", "f") and v[1] != "nan")):
                # +-inf compared with a numeric column whose values are all small: +-1e308 orders identically
                texts = [("1e308" if v > 0 else "-1e308") if i in xs else lit(v, dev) for i, v in enumerate(plist)]
                rsql = substitute(sql, texts)
                cls("step:inf_standin")
            else:
                res["ended"] = "inexpressible value in a position that cannot be judged"
                return res
        else:
            rsql = substitute(sql, [lit(v, dev) for v in plist])

        # ---- C. differential against the reference connection
        outR = R.ref_exec(rsql)
        newR = R.dump()
        if outR.status != "ok" and newR != dumpR:
            raise HarnessError("reference statement raised and changed state: %s" % rsql)
        both = " :: reference %r -> %s" % (rsql, outR.brief())
        if (outP.status == "ok") != (outR.status == "ok"):
            rel = "status.param_raises_reference_ok" if outP.status != "ok" else "status.param_ok_reference_raises"
            return xfail(fail(k, rel, ctxt() + both))
        if outP.status == "ok":
            if outP.rows != outR.rows:
                return xfail(fail(k, "rows_differ", ctxt() + both))
            if outP.rowcount != outR.rowcount:
                return xfail(fail(k, "rowcount_differs", ctxt() + both))
        if newP != newR:
            return xfail(fail(k, "tables_differ", ctxt() + both + " :: tables param=%r reference=%r" % (newP, newR)))
        if outP.status != "ok":
            cls("step:both_raise")
            if outP.exc != outR.exc or re.sub(r"\d+", "#", outP.msg or "") != re.sub(r"\d+", "#", outR.msg or ""):
                cls("step:both_raise_message_differs")
        else:
            # ---- D. values read back equal the values bound
            bad = None
            if info["kind"] in ("echo", "select"):
                bad = readback_list(info, plist, outP, E)
            elif info["kind"] == "insert":
                bad = readback_insert(info, tables, plist, dumpP, newP, E, only="natural")
            if bad:
                res["fail"] = fail(k, "readback", ctxt() + " :: " + bad)
                return res
            if nreal > 0:
                verified += 1
            cls("step:both_ok")
        dumpP, dumpR = newP, newR
    res["verified"] = verified
    return res


def rt_skip(v, E, in_list):
    if isinstance(v, bool) and "bool" in E:
        return True
    if is_integral_float(v) and "fint" in E:
        return True
    if in_list and v == I64MIN and isinstance(v, int) and not isinstance(v, bool) and "intmin" in E:
        return True
    return False


def readback_list(info, plist, outP, E):
    """select-list items that are exactly `?`: every fetched row carries the bound value at that index"""
    if info.get("star") or outP.rows is None:
        return None
    for si, slot in enumerate(info["slots"]):
        if slot.get("where") == "list" and slot.get("index") is not None:
            v = plist[si]
            if rt_skip(v, E, True):
                continue
            for r in outP.rows:
                if slot["index"] >= len(r) or r[slot["index"]] != canon(v):
                    got = r[slot["index"]] if slot["index"] < len(r) else None
                    return "select-list placeholder %d bound %r (%s) read back %r" % (si, v, type(v).__name__, got)
    return None


def readback_insert(info, tables, plist, before, after, E, only):
    """the row added by INSERT ... VALUES carries the bound values (for parameters whose python type is
    the natural type of the column; other combinations are left to the differential oracle)"""
    t = info["table"]
    if t not in tables or t not in after:
        return None
    new = multiset_minus(after[t], before[t])
    if new is None or len(new) != 1:
        return "INSERT did not add exactly one row (added %r)" % (new,)
    row = new[0]
    colidx = {c: i for i, (c, _) in enumerate(tables[t])}
    for si, slot in enumerate(info["slots"]):
        if slot.get("where") != "values" or not slot.get("bare") or slot["col"] not in colidx:
            continue
        v = plist[si]
        if rt_skip(v, E, False):
            continue
        x = is_special_float(v) or is_bigint(v)
        if not x and not natural(v, slot["ctype"]):
            continue
        if x and isinstance(v, int) and slot["ctype"] == "DOUBLE":
            want = canon(float(v))
        else:
            want = canon(v)
        if row[colidx[slot["col"]]] != want:
            return "column %s bound %r (%s) read back %r" % (slot["col"], v, type(v).__name__, row[colidx[slot["col"]]])
    return None


def applicable(case, k):
    """explanation atoms whose trigger is present in steps 0..k"""
    a = set()
    seen = set()
    for st in case["steps"][:k + 1]:
        sql = st["sql"]
        if sql in seen:
            a.add("cache")
        seen.add(sql)
        _, masked = scan_sql(sql)
        for _, ctx in masked:
            a.add("masked_" + ctx)
        for v in dec_params(st.get("params")) or ():
            if isinstance(v, bool):
                a.add("bool")
            elif is_special_float(v):
                a.add("special")
            elif is_bigint(v):
                a.add("bigint")
            elif is_integral_float(v):
                a.add("fint")
            elif isinstance(v, int) and v == I64MIN:
                a.add("intmin")
    return a


def judge(vib, case, stats=None):
    """-> {"explained_by": [atoms], "violation": None | {signature, detail}, "verified": n, "first_fail": ...}
    A failure is attributed to the smallest set of known defect mechanisms under which the case passes
    (causal counterfactuals, see run_case); a failure that no such set explains is `unexplained.<relation>`."""
    E = frozenset()
    res = run_case(vib, case, E, stats)
    out = {"explained_by": [], "violation": None, "verified": res["verified"], "first_fail": res["fail"]}
    guard = 0
    while res["fail"]:
        guard += 1
        k = res["fail"]["step"]
        cand = sorted(applicable(case, k) - E, key=ATOMS.index)
        found = None
        for size in range(1, min(3, len(cand)) + 1):
            for comb in itertools.combinations(cand, size):
                E2 = E | frozenset(comb)
                r2 = run_case(vib, case, E2)
                if r2["fail"] is None or r2["fail"]["step"] > k:
                    found = (E2, r2)
                    break
            if found:
                break
        if not found or guard > 8:
            out["violation"] = {"signature": "unexplained." + res["fail"]["relation"],
                                "detail": res["fail"]["detail"] + (" :: already assumed %s" % sorted(E) if E else "")}
            out["explained_by"] = sorted(E, key=ATOMS.index)
            return out
        E, res = found
    out["explained_by"] = sorted(E, key=ATOMS.index)
    return out


# --------------------------------------------------------------------------------------------------
# generator (every random choice is a Hypothesis draw)
# --------------------------------------------------------------------------------------------------
INT_EDGES = [0, 1, -1, 2, 7, -7, 32767, 32768, -32768, -32769, 2 ** 31 - 1, 2 ** 31, -2 ** 31, -2 ** 31 - 1,
             2 ** 53, 2 ** 53 + 1, I64MAX, I64MAX - 1, I64MIN, I64MIN + 1]
BIG_INTS = [2 ** 63, -2 ** 63 - 1, 2 ** 64, 2 ** 63 + 1]
FLOAT_EDGES = [0.0, -0.0, 1.0, -1.0, 2.0, 0.5, -0.5, 0.1, -0.1, 1.5, 2.5, 1e-7, 1e16, 1e22, -1e22, 1e308, -1e308,
               1.7976931348623157e308, 5e-324, -5e-324, 2.2250738585072014e-308, 3.141592653589793, 1.0 / 3.0,
               123456789.125, 9007199254740993.0, 16777217.0, 1e-320, 4611686018427387904.0]
SPECIAL_FLOATS = [math.nan, math.inf, -math.inf]
STR_EDGES = ["", "x", "abc", "'", "''", "it's", "'quoted'", '"', 'say "hi"', "?", "a?b", "??", "'?'", ";", "a;b", "--",
             "a--b", "x'; DROP TABLE t0; --", "' OR '1'='1", "\\", "\\'", "a\\b", "a\nb", "\n", "\t", "\r\n", "é",
             "üß", "日本", "\U0001F600", "\x00", "a\x00b", "NULL", "TRUE", "1", " ", " x ", "%", "_",
             "?);--", "1e5", "inf", "nan", "`", "$1", ":p", "@x", "/* c */"]
STR_ALPHABET = "ab'\"?;-\\ \n%_é\U0001F6000`"
SQLTYPE = {"INTEGER": "INTEGER", "DOUBLE": "DOUBLE PRECISION", "VARCHAR": "VARCHAR(50)", "BOOLEAN": "BOOLEAN"}
STR_DECO_Q = ["'q?'", "'it''s ?'", "'a--b?'", "'?'", "'\"?\"'", "'??'"]
STR_DECO = ["'it''s'", "'a--b'", "'\"x\"'", "'q'"]
COM_DECO_Q = ["-- why?", "-- it's ? \"x", "--?"]
COM_DECO = ["-- note", "-- it's \"x"]
ID_DECO_Q = ['"q?"', '"it\'s?"', "`q?`"]
ID_DECO = ['"plain"', '"it\'s"', "`bt`"]


def make_strategy(open_sigs):
    from hypothesis import strategies as st
    _ints = {}
    _floats = st.floats(allow_nan=False, allow_infinity=False)
    _text = st.text(alphabet=st.sampled_from(STR_ALPHABET), max_size=6)

    @st.composite
    def cases(draw):
        def di(lo, hi):
            s = _ints.get((lo, hi))
            if s is None:
                s = _ints[(lo, hi)] = st.integers(lo, hi)
            return draw(s)

        def pick(seq):
            return seq[di(0, len(seq) - 1)]

        # known-finding avoidance: 80% of the examples do not produce the trigger of an open finding
        # (drawn lazily, when the generator is about to decide whether to produce that trigger)
        class Avoid(dict):
            def __missing__(self, a):
                self[a] = (SIG[a] in open_sigs) and di(0, 4) != 4
                return self[a]
        avoid = Avoid()

        def g_int():
            r = di(0, 9)
            if r < 4:
                return pick(INT_EDGES)
            if r < 7:
                return di(-100, 100)
            return di(I64MIN, I64MAX)

        def g_float():
            r = di(0, 9)
            if r < 5:
                v = pick(FLOAT_EDGES)
            elif r < 7:
                v = di(-2000, 2000) / 8.0
            else:
                v = draw(_floats)
            if is_integral_float(v) and avoid["fint"]:
                v = v + 0.5 if abs(v) < 2.0 ** 52 else 0.5
            return v

        def g_str():
            if di(0, 9) < 6:
                return pick(STR_EDGES)
            return draw(_text)

        pool = {"INTEGER": [None] * 3, "DOUBLE": [None] * 3, "VARCHAR": [None] * 3}
        gens = {"INTEGER": g_int, "DOUBLE": g_float, "VARCHAR": g_str}

        def from_pool(ctype):
            j = di(0, 2)
            if pool[ctype][j] is None:
                pool[ctype][j] = gens[ctype]()
            return pool[ctype][j]

        def plain(ctype):
            """finite, expressible value of the natural python type"""
            if ctype == "BOOLEAN":
                return di(0, 1) == 1
            if di(0, 9) < 6:
                return from_pool(ctype)
            return gens[ctype]()

        # ---- schema
        ntab = di(1, 2)
        tables = []
        ddl, setup = [], []
        for ti in range(ntab):
            ncol = di(1, 4)
            cols = []
            for ci in range(ncol):
                cols.append(["c%d" % ci, pick(["INTEGER", "DOUBLE", "VARCHAR", "BOOLEAN"])])
            if di(0, 7) == 7:  # a column that is called like the text of a special float
                dc = [c for c in cols if c[1] == "DOUBLE"] or cols
                pick(dc)[0] = pick(["inf", "nan"])
            name = "t%d" % ti
            tables.append((name, cols))
            ddl.append("CREATE TABLE %s (%s)" % (name, ", ".join("%s %s" % (c, SQLTYPE[t]) for c, t in cols)))
            for _ in range(di(0, 4)):
                vals = [None if di(0, 5) == 5 else plain(t) for _, t in cols]
                setup.append("INSERT INTO %s VALUES (%s)" % (name, ", ".join(lit(v) for v in vals)))

        # ---- parameter values
        def param_natural(ctype, where):
            if ctype == "BOOLEAN":
                if avoid["bool"]:
                    return None
                return di(0, 1) == 1
            if ctype == "INTEGER" and di(0, 19) == 19 and not avoid["bigint"]:
                return pick(BIG_INTS)
            if ctype == "DOUBLE" and di(0, 11) == 11 and not avoid["special"]:
                return pick(SPECIAL_FLOATS)
            v = plain(ctype)
            if where == "list" and isinstance(v, int) and v == I64MIN and avoid["intmin"]:
                v += 1
            return v

        def param(ctype, where):
            r = di(0, 19)
            if r == 19:
                return None
            if ctype is None or r == 18:
                ctype = pick(["INTEGER", "DOUBLE", "VARCHAR", "BOOLEAN"])
            return param_natural(ctype, where)

        # ---- statement templates: (sql, [(ctype, where)])
        def const(ctype):
            return lit(plain(ctype))

        def atom(tcols, slots, budget):
            c, t = pick(tcols)
            op = pick(["=", "=", "=", ">", "<", ">=", "<=", "<>"])
            if budget[0] > 0 and di(0, 5) != 5:
                budget[0] -= 1
                slots.append((t, "where"))
                return "%s %s ?" % (c, op)
            return "%s %s %s" % (c, op, const(t))

        def pred(tcols, slots, budget):
            p = atom(tcols, slots, budget)
            if di(0, 2) == 2:
                p = "%s %s %s" % (p, pick(["AND", "AND", "OR"]), atom(tcols, slots, budget))
            return p

        def template():
            tname, tcols = pick(tables)
            kind = pick(["insert", "insert", "select", "select", "select", "update", "update", "delete", "echo", "zero"])
            slots, budget = [], [4]
            deco = pick(["none"] * 7 + ["str", "str_q", "str_q", "comment", "comment_q", "comment_q", "ident", "ident_q"])
            if deco == "str_q" and avoid["masked_str"]:
                deco = "str"
            if deco == "comment_q" and avoid["masked_comment"]:
                deco = "comment"
            if deco == "ident_q" and avoid["masked_ident"]:
                deco = "ident"
            strlit = pick(STR_DECO_Q if deco == "str_q" else STR_DECO) if deco.startswith("str") else None
            where = None
            if kind == "insert":
                cols = list(tcols)
                names = ""
                if di(0, 3) == 3:
                    cols = list(draw(st.permutations(cols)))[:di(1, len(cols))]
                    names = " (%s)" % ", ".join(c for c, _ in cols)
                items = []
                for c, t in cols:
                    if strlit and t == "VARCHAR":
                        items.append(strlit)
                        strlit = None
                    elif di(0, 5) == 5:
                        items.append(const(t))
                    else:
                        items.append("?")
                        slots.append((t, "values"))
                sql = "INSERT INTO %s%s VALUES (%s)" % (tname, names, ", ".join(items))
                strlit = None
            elif kind == "select":
                r = di(0, 5)
                if r <= 1:
                    lst = "*"
                elif r == 2:
                    lst = pick(tcols)[0]
                elif r == 3:
                    lst = "%s, %s" % (pick(tcols)[0], pick(tcols)[0])
                else:
                    budget[0] -= 1
                    slots.append((None, "list"))
                    lst = "?, %s" % pick(tcols)[0] if r == 4 else "%s, ?" % pick(tcols)[0]
                if deco.startswith("ident") and lst != "*":
                    lst += " AS " + pick(ID_DECO_Q if deco == "ident_q" else ID_DECO)
                sql = "SELECT %s FROM %s" % (lst, tname)
                if di(0, 7) != 7:
                    where = pred(tcols, slots, budget)
            elif kind == "update":
                sets = []
                for _ in range(2 if di(0, 3) == 3 else 1):
                    c, t = pick(tcols)
                    if c in [s.split(" ")[0] for s in sets]:
                        continue
                    if strlit and t == "VARCHAR":
                        sets.append("%s = %s" % (c, strlit))
                        strlit = None
                    elif di(0, 5) == 5:
                        sets.append("%s = %s" % (c, const(t)))
                    else:
                        budget[0] -= 1
                        slots.append((t, "set"))
                        sets.append("%s = ?" % c)
                sql = "UPDATE %s SET %s" % (tname, ", ".join(sets))
                if di(0, 5) != 5:
                    where = pred(tcols, slots, budget)
            elif kind == "delete":
                sql = "DELETE FROM %s" % tname
                if di(0, 9) != 9:
                    where = pred(tcols, slots, budget)
            elif kind == "echo":
                n = di(1, 4)
                items = ["?"] * n
                slots.extend([(None, "list")] * n)
                if strlit:
                    items.insert(di(0, n), strlit)
                    strlit = None
                sql = "SELECT " + ", ".join(items)
            else:
                sql = "SELECT %s FROM %s" % (pick(["*", tcols[0][0]]), tname)
                if di(0, 1):
                    c, t = pick(tcols)
                    where = "%s = %s" % (c, const(t))
            if kind != "echo" and kind != "insert":
                if strlit:
                    extra = "%s = %s" % (strlit, strlit)
                    where = extra if where is None else ("%s AND %s" % (where, extra) if di(0, 1) else "%s AND %s" % (extra, where))
                if where is not None:
                    sql += " WHERE " + where
            if deco.startswith("comment"):
                com = pick(COM_DECO_Q if deco == "comment_q" else COM_DECO)
                spots = [m.start() for m in re.finditer(r" (WHERE|VALUES|FROM|SET) ", code_mask(sql))]
                r = di(0, len(spots) + 1)
                if r == 0:
                    sql = sql + " " + com
                elif r == len(spots) + 1:
                    sql = com + "\n" + sql
                else:
                    p = spots[r - 1]
                    sql = sql[:p] + " " + com + "\n" + sql[p + 1:]
            # slots must be in textual order of the placeholders: re-derive from the text
            real, _ = scan_sql(sql)
            if len(real) != len(slots):
                raise HarnessError("generator: template %r has %d placeholders, %d slots" % (sql, len(real), len(slots)))
            an = analyse(sql, parse_schema(ddl))
            ordered = []
            tmap = {c.upper(): t for c, t in tcols}
            for s in an["slots"]:
                ordered.append((tmap.get(s.get("col")) if s.get("col") else None, s.get("where")))
            return sql, ordered

        ntpl = di(1, 3)
        tpls = [template() for _ in range(ntpl)]
        nsteps = di(2, 6)
        steps, occ = [], collections.Counter()
        for _ in range(nsteps):
            ti = di(0, ntpl - 1)
            sql, slots = tpls[ti]
            ps = [param(t, w) for t, w in slots]
            if di(0, 24) == 24:  # wrong number of parameters
                if ps and di(0, 1):
                    ps = ps[:-1]
                else:
                    ps = ps + [param(None, "extra")]
            params = tuple(ps)
            if not ps and di(0, 1):
                params = None
            text = sql
            if occ[ti] and avoid["cache"]:
                text = sql + " " * occ[ti]  # same statement, distinct cache key
            occ[ti] += 1
            steps.append({"sql": text, "params": enc_params(params)})
        return {"schema": ddl, "setup": setup, "steps": steps,
                "avoided": sorted(SIG[a] for a in ATOMS if avoid.get(a))}

    return cases()


# --------------------------------------------------------------------------------------------------
# coverage bookkeeping
# --------------------------------------------------------------------------------------------------
def case_hash(case):
    core = {"schema": case["schema"], "setup": case.get("setup", []), "steps": case["steps"]}
    return hashlib.sha256(json.dumps(core, sort_keys=True).encode()).hexdigest()[:16]


def static_classes(case):
    """classes of a case and the static half of the non-triviality rule"""
    cl = set()
    by_text = collections.defaultdict(set)
    by_stmt = collections.defaultdict(set)
    quoteq = False
    for st in case["steps"]:
        sql = st["sql"]
        ps = dec_params(st.get("params"))
        by_text[sql].add(repr(ps))
        by_stmt[sql.rstrip(" ")].add(repr(ps))
        real, masked = scan_sql(sql)
        cl.add("placeholders:%d" % len(real))
        for _, ctx in masked:
            cl.add("qmark_in:" + ctx)
        head = sql.lstrip().split(None, 1)[0].upper() if sql.strip() else ""
        if head.startswith("--"):
            head = "LEADING_COMMENT"
        cl.add("kind:" + head)
        if ps is None:
            cl.add("params:None")
        for v in ps or ():
            if v is None:
                cl.add("val:None")
            elif isinstance(v, bool):
                cl.add("val:bool")
            elif isinstance(v, int):
                cl.add("val:int")
                if v < 0:
                    cl.add("int:negative")
                if v in (I64MIN, I64MAX):
                    cl.add("int:i64_edge")
                if is_bigint(v):
                    cl.add("int:beyond_i64")
            elif isinstance(v, float):
                cl.add("val:float")
                if v != v:
                    cl.add("float:nan")
                elif v in (math.inf, -math.inf):
                    cl.add("float:inf")
                elif v == 0 and math.copysign(1, v) < 0:
                    cl.add("float:negzero")
                elif abs(v) >= 1e300:
                    cl.add("float:huge")
                elif v != 0 and abs(v) < 1e-300:
                    cl.add("float:tiny")
                if is_integral_float(v):
                    cl.add("float:integral")
            elif isinstance(v, str):
                cl.add("val:str")
                if v == "":
                    cl.add("str:empty")
                for ch, nm in (("'", "quote"), ('"', "dquote"), ("?", "qmark"), (";", "semicolon"), ("--", "dashdash"),
                               ("\\", "backslash"), ("\n", "newline"), ("\x00", "nul")):
                    if ch in v:
                        cl.add("str:" + nm)
                if any(ord(c) > 127 for c in v):
                    cl.add("str:non_ascii")
                if "'" in v or "?" in v:
                    quoteq = True
    exact = any(len(s) >= 2 for s in by_text.values())
    variant = any(len(s) >= 2 for s in by_stmt.values())
    if exact:
        cl.add("reuse:exact_text_different_tuples")
    elif variant:
        cl.add("reuse:trailing_blank_variant_different_tuples")
    if quoteq:
        cl.add("param:quote_or_qmark")
    return cl, (exact or variant or quoteq)


RULE = ("Hypothesis (@seed(VERIF_SEED), database=None, derandomize=False) draws a case = 1-2 tables of 1-4 columns over "
        "INTEGER / DOUBLE PRECISION / VARCHAR(50) / BOOLEAN (1/8: one column is called inf or nan), 0-4 initial rows per "
        "table, 1-3 statement texts (INSERT ... VALUES with/without column list, SELECT */cols/?,col ... WHERE, UPDATE ... "
        "SET ... [WHERE], DELETE ... [WHERE], SELECT ?,..,? and placeholder-free statements; 0-4 `?`; predicates col op ? "
        "with op in = > < >= <= <>, AND/OR pairs; decorations: string literals, -- comments and delimited identifiers with "
        "and without `?`, quotes and -- inside) and 2-6 execute(sql, params) calls on ONE cursor that pick among these texts; "
        "parameters from per-case pools and edge lists (ints incl. +-2^63 edges and beyond-i64, floats incl. nan/inf/-0.0/"
        "1e308/5e-324, strings with ' \" ? ; -- \\ newline NUL non-ASCII SQL fragments, bool, None), 1/20 of another type "
        "than the column, 1/25 wrong arity. For every OPEN known finding its trigger is left out in 80% of the examples "
        "(coverage.excluded_by_construction; for cache.reuses_first_params the repeated text then differs by trailing "
        "blanks). Non-trivial = (some statement text executed >= 2 times with different tuples [exact text, or the "
        "trailing-blank variant while the cache finding is avoided] OR a string parameter containing ' or ?) AND at least "
        "one step with placeholders succeeded on both connections with equal rows, rowcount, tables and read-back "
        "(a step that raises on both sides verifies nothing). Distinct = sha256 of (schema, setup, steps); an example that repeats a case which already "
        "held in this process is not executed again (evaluations counts executed cases, generated_examples all).")

ASSUMPTIONS = [
    "reference = a second connection of the same extension executing the statement with the harness's own literal "
    "substitution (scanner mirrors vibesql-parser's lexer: '..' with '' doubling, \"..\" and `..` identifiers, -- to end "
    "of line; no block comments because the lexer has none); engine defects shared by both connections are invisible here",
    "literals: NULL, TRUE/FALSE, decimal ints, repr() floats (the parser reads every non-integer numeric text with "
    "str::parse::<f64>, so notation does not matter), strings with ' doubled (the lexer has no backslash escapes)",
    "read-back: bool, int, float, str, None are pairwise distinct python types (True is not 1, 2.0 is not 2) because the "
    "property lists them as the value domain; equality is python ==, NaN equals NaN, -0.0 equals 0.0; checked for "
    "select-list placeholders and for INSERTed columns whose declared type is the natural type of the python value; "
    "other combinations (int into DOUBLE PRECISION ...) are judged by the differential oracle only",
    "NaN, +-inf and ints outside i64 have no literal: the call must raise (database unchanged) or store/return exactly "
    "the bound value; +-inf in a comparison with a numeric column is compared with +-1e308 when every stored number is "
    "<= 1e30 in magnitude; such values in other positions are not judged and end the case",
    "a wrong number of parameters must raise and leave the database unchanged",
    "when both connections raise only 'both raised, tables equal' is required (messages are recorded, not compared)",
    "a mismatch is attributed to a known finding only by a counterfactual under which the whole case passes: cache "
    "cleared before every execute / masked `?` replaced by `!` / reference literal modelling the defect (TRUE->1, "
    "2.0->2) / special-value checks dropped; anything else is reported as unexplained.<relation>",
    "held on everything explored; absence of violations is not shown",
]


# --------------------------------------------------------------------------------------------------
# driver
# --------------------------------------------------------------------------------------------------
class Run:
    def __init__(self, vib, strict, kf=None):
        self.vib = vib
        self.strict = strict
        self.kf = load_known() if kf is None else kf
        self.open = {} if strict else {e["signature"]: e for e in self.kf if e.get("status") == "open"}
        self.classes = collections.Counter()
        self.kf_hits = collections.Counter()
        self.evaluations = 0
        self.generated = 0
        self.duplicates = 0
        self.passed = set()
        self.sub_evals = 0
        self.nontrivial = set()
        self.seen = set()
        self.samples = []
        self.nt_samples = []
        self.excluded = 0
        self.excluded_by_sig = collections.Counter()
        self.harness_errors = []
        self.last_violation = None
        self.violations = 0
        self.replayed = 0

    def merge(self, r):
        self.classes.update(r["classes"])
        self.kf_hits.update(r["kf_hits"])
        self.evaluations += r["evaluations"]
        self.generated += r["generated"]
        self.duplicates += r["duplicates"]
        self.sub_evals += r["sub_evals"]
        self.nontrivial |= r["nontrivial"]
        self.seen |= r["seen"]
        self.samples = (self.samples + r["samples"])[:2]
        self.nt_samples = (self.nt_samples + r["nt_samples"])[:3]
        self.excluded += r["excluded"]
        self.excluded_by_sig.update(r["excluded_by_sig"])
        self.harness_errors += r["harness_errors"]

    def evaluate(self, case, count=True):
        """-> None (held / only open known findings) or {signature, detail}"""
        if count:
            self.generated += 1
            h = case_hash(case)
            if h in self.passed:
                # Hypothesis' mutator repeats examples; the oracle is deterministic and every case seen so far
                # held (a violation ends the run), so an exact duplicate is not executed again
                self.duplicates += 1
                return None
        stats = collections.Counter()
        verdict = judge(self.vib, case, stats)
        if count:
            self.evaluations += 1
            self.sub_evals += len(case["steps"])
            cl, nt_static = static_classes(case)
            for c in cl:
                self.classes[c] += 1
            for c, n in stats.items():
                self.classes[c] += n
            if case.get("avoided"):
                self.excluded += 1
                for s in case["avoided"]:
                    self.excluded_by_sig[s] += 1
            nt = nt_static and verdict["verified"] >= 1
            if nt:
                self.nontrivial.add(h)
            if h not in self.seen:
                self.seen.add(h)
                if len(self.samples) < 2:
                    self.samples.append(case)
                elif nt and len(self.nt_samples) < 3:
                    self.nt_samples.append(case)
        viol = verdict["violation"]
        for a in verdict["explained_by"]:
            sig = SIG[a]
            if sig in self.open:
                self.kf_hits[sig] += 1
            elif viol is None:
                ff = verdict["first_fail"] or {}
                viol = {"signature": sig, "detail": ff.get("detail", "")}
        if count and viol is None:
            self.passed.add(h)
        return viol


def load_known():
    path = os.path.join(ROOT, "known_findings.json")
    try:
        with open(path) as f:
            return [e for e in json.load(f) if e.get("property") == PROP]
    except FileNotFoundError:
        return []
    except Exception as e:
        raise HarnessError("known_findings.json unreadable: %s" % e)


def write_replay(case, viol):
    d = os.path.join(ROOT, "replays", PROP)
    os.makedirs(d, exist_ok=True)
    path = os.path.join(d, "viol-%s.json" % case_hash(case))
    with open(path, "w") as f:
        json.dump({"property": PROP, "signature": viol["signature"], "detail": viol["detail"],
                   "case": {"schema": case["schema"], "setup": case.get("setup", []), "steps": case["steps"]}},
                  f, indent=1, ensure_ascii=True)
    return path


def load_replay(path):
    with open(path) as f:
        j = json.load(f)
    case = j.get("case", j)
    if "schema" not in case or "steps" not in case:
        raise HarnessError("replay file has no case: " + path)
    case.setdefault("setup", [])
    return case, j


def write_evidence(run, tier, t0, extra=None):
    d = os.path.join(ROOT, "evidence")
    os.makedirs(d, exist_ok=True)
    cov = {
        "evaluations": run.evaluations if run else 0,
        "distinct_nontrivial": len(run.nontrivial) if run else 0,
        "distinct_cases": len(run.seen) if run else 0,
        "generated_examples": run.generated if run else 0,
        "duplicate_examples_not_rerun": run.duplicates if run else 0,
        "executes_checked": run.sub_evals if run else 0,
        "rule": RULE,
        "samples": ((run.samples + run.nt_samples) if run else []),
        "classes": dict(sorted(run.classes.items())) if run else {},
        "known_finding_hits": dict(sorted(run.kf_hits.items())) if run else {},
        "excluded_by_construction": run.excluded if run else 0,
        "excluded_by_signature": dict(sorted(run.excluded_by_sig.items())) if run else {},
        "replayed_files": run.replayed if run else 0,
    }
    if extra:
        cov.update(extra)
    ev = {"property_id": PROP, "tier": tier, "seed": SEED, "level": "exploration", "coverage": cov,
          "assumptions": ASSUMPTIONS, "wall_s": round(time.time() - t0, 3), "violations": run.violations if run else 0}
    tmp = os.path.join(d, ".%s.%d.tmp" % (PROP, os.getpid()))
    with open(tmp, "w") as f:
        json.dump(ev, f, indent=1, ensure_ascii=True)
    os.replace(tmp, os.path.join(d, PROP + ".json"))


def print_known(run):
    for sig, n in sorted(run.kf_hits.items()):
        e = run.open[sig]
        print("KNOWN-FINDING: property=%s %s: %s [%s] (%d hits)" % (PROP, e.get("id", "?"), e.get("what", ""), sig, n))


def minimise(run, case, viol):
    """deterministic post-pass after Hypothesis' shrinker: drop steps, initial rows and tables while the
    violation keeps its signature (no randomness, no counting)"""
    sig = viol["signature"]

    def still(c):
        try:
            v = run.evaluate(c, count=False)
        except HarnessError:
            return None
        return v if v and v["signature"] == sig else None

    cur = {"schema": list(case["schema"]), "setup": list(case.get("setup", [])), "steps": list(case["steps"])}
    changed = True
    while changed:
        changed = False
        for key, least in (("steps", 1), ("setup", 0), ("schema", 1)):
            i = len(cur[key]) - 1
            while i >= 0 and len(cur[key]) > least:
                cand = dict(cur)
                cand[key] = cur[key][:i] + cur[key][i + 1:]
                v = still(cand)
                if v:
                    cur, viol, changed = cand, v, True
                i -= 1
    return cur, viol


def run_chunk(run, ci, n):
    """one @given run of n examples; returns (case, violation) of the shrunk failing example or None"""
    from hypothesis import given, settings, seed, HealthCheck, Phase
    strategy = make_strategy(set(run.open.keys()))
    failure = {}

    def body(case):
        try:
            viol = run.evaluate(case)
        except HarnessError as e:
            run.harness_errors.append((str(e), case))
            return
        if viol:
            failure["last"] = (case, viol)
            raise AssertionError(viol["signature"])

    test = settings(database=None, deadline=None, derandomize=False, max_examples=n, report_multiple_bugs=False,
                    phases=[Phase.generate, Phase.shrink], suppress_health_check=list(HealthCheck))(
        seed(SEED if ci == 0 else SEED + 1000003 * ci)(given(strategy)(body)))
    try:
        test()
    except AssertionError:
        return failure.get("last")
    except HarnessError as e:
        run.harness_errors.append((str(e), None))
    return None


_WORKER_RUN = None


def _worker(arg):
    ci, n = arg
    base = _WORKER_RUN
    run = Run(base.vib, base.strict, base.kf)
    found = run_chunk(run, ci, n)
    return {"found": found, "classes": run.classes, "kf_hits": run.kf_hits, "evaluations": run.evaluations,
            "generated": run.generated, "duplicates": run.duplicates, "sub_evals": run.sub_evals, "nontrivial": run.nontrivial, "seen": run.seen, "samples": run.samples,
            "nt_samples": run.nt_samples, "excluded": run.excluded, "excluded_by_sig": run.excluded_by_sig,
            "harness_errors": run.harness_errors}


def main(argv):
    t0 = time.time()
    args = [a for a in argv if a != "--strict"]
    strict = "--strict" in argv or os.environ.get("VERIF_STRICT") == "1"
    if not args or args[0] not in ("quick", "thorough", "--replay") or (args[0] == "--replay" and len(args) < 2):
        print(__doc__)
        return 2
    tier = args[0] if args[0] != "--replay" else "quick"
    try:
        vib = build_and_import()
        run = Run(vib, strict)
    except HarnessError as e:
        print("[c30] inconclusive: %s" % e, file=sys.stderr)
        write_evidence(None, tier, t0, {"inconclusive": str(e)[:500]})
        return 2

    # ---- single replay
    if args[0] == "--replay":
        try:
            case, meta = load_replay(args[1])
            viol = run.evaluate(case)
        except HarnessError as e:
            print("[c30] inconclusive: %s" % e, file=sys.stderr)
            return 2
        print_known(run)
        if viol:
            print("replay %s: FAIL [%s] %s" % (args[1], viol["signature"], viol["detail"]))
            print("VIOLATION property=%s replay=%s" % (PROP, args[1]))
            return 1
        print("replay %s: held%s" % (args[1], " (open known findings only)" if run.kf_hits else ""))
        return 0

    # ---- saved cases first
    rdir = os.path.join(ROOT, "replays", PROP)
    for path in sorted(glob.glob(os.path.join(rdir, "*.json"))):
        try:
            case, meta = load_replay(path)
            viol = run.evaluate(case)
            run.replayed += 1
        except HarnessError as e:
            print("[c30] inconclusive while replaying %s: %s" % (path, e), file=sys.stderr)
            write_evidence(run, tier, t0, {"inconclusive": str(e)[:500]})
            return 2
        if viol:
            run.violations += 1
            print_known(run)
            print("replay %s: FAIL [%s] %s" % (path, viol["signature"], viol["detail"]))
            print("VIOLATION property=%s replay=%s" % (PROP, path))
            write_evidence(run, tier, t0)
            return 1

    # ---- generated cases
    n_total = {"quick": 4000, "thorough": 75000}[tier]  # generated examples; ~65% are distinct and get executed
    if os.environ.get("VERIF_C30_EXAMPLES"):
        n_total = int(os.environ["VERIF_C30_EXAMPLES"])
    chunk = 5000  # one @given run per chunk (seed derived from VERIF_SEED and the chunk index) keeps Hypothesis'
    #               internal choice tree small; chunks are independent, so they may run in worker processes
    chunks = []
    done = 0
    while done < n_total:
        n = min(chunk, n_total - done)
        chunks.append((len(chunks), n))
        done += n
    jobs = int(os.environ.get("VERIF_C30_JOBS", "8"))
    jobs = max(1, min(jobs, len(chunks)))
    found = None
    if jobs == 1:
        for ci, n in chunks:
            found = run_chunk(run, ci, n)
            if found or run.harness_errors:
                break
    else:
        import multiprocessing
        global _WORKER_RUN
        _WORKER_RUN = run
        ctx = multiprocessing.get_context("fork")
        with ctx.Pool(jobs) as pool:
            results = pool.map(_worker, chunks, chunksize=1)
        for r in results:  # chunk order: the reported violation does not depend on scheduling
            run.merge(r)
            if r["found"] and not found:
                found = r["found"]

    print_known(run)
    if found:
        case, viol = found
        kf_before = collections.Counter(run.kf_hits)
        case, viol = minimise(run, case, viol)
        run.kf_hits = kf_before
        run.violations = 1
        path = write_replay(case, viol)
        print("[c30] minimal failing case: [%s] %s" % (viol["signature"], viol["detail"]))
        print("VIOLATION property=%s replay=%s" % (PROP, path))
        write_evidence(run, tier, t0)
        return 1
    if run.harness_errors:
        msg, case = run.harness_errors[0]
        print("[c30] inconclusive: harness inconsistency: %s" % msg, file=sys.stderr)
        if case is not None:
            print("[c30] case: %s" % json.dumps(case), file=sys.stderr)
        write_evidence(run, tier, t0, {"inconclusive": msg[:500]})
        return 2
    write_evidence(run, tier, t0)
    print("[c30] %s seed=%d: %d examples generated, %d distinct cases executed (%d non-trivial), %d executes, "
          "%d replayed files, %.1fs: held"
          % (tier, SEED, run.generated, run.evaluations, len(run.nontrivial), run.sub_evals, run.replayed, time.time() - t0))
    return 0


if __name__ == "__main__":
    sys.exit(main(sys.argv[1:]))
