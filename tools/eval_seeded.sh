#!/bin/bash
# usage: tools/eval_seeded.sh [<ID>/<name> ...]
# Applies each seeded change under /verif/seeded/<ID>/<name>/patch.diff to /repo's working tree,
# runs the quick tier of that property's check, records the outcome in seeded/results.tsv and
# restores the tree. Never commits anything in /repo. Run only when nothing else uses /repo.
cd /verif
if [ -n "$(git -C /repo status --porcelain)" ]; then echo "/repo working tree is not clean"; exit 2; fi
LIST="$@"
[ -z "$LIST" ] && LIST=$(cd seeded && ls -d C*/*/ | sed 's#/$##')
for item in $LIST; do
  id=${item%%/*}; name=${item#*/}
  p=seeded/$id/$name/patch.diff
  [ -f "$p" ] || { echo -e "$id\t$name\tNO_PATCH"; continue; }
  if ! git -C /repo apply --check "$PWD/$p" 2>/dev/null; then echo -e "$id\t$name\tAPPLY_FAILED" | tee -a seeded/results.tsv; continue; fi
  git -C /repo apply "$PWD/$p"
  start=$(date +%s)
  out=$(VERIF_SEED=${VERIF_SEED:-1} timeout 2400 ./check $id quick 2>&1); rc=$?
  end=$(date +%s)
  viol=$(echo "$out" | grep -m1 '^VIOLATION' | sed 's/replay=.*//')
  sig=$(echo "$out" | grep -m1 'FAIL signature=\|signature=' | sed 's/.*signature=//' | cut -c1-80)
  git -C /repo checkout -- .
  rm -f replays/$id/viol-*
  echo -e "$id\t$name\trc=$rc\t$((end-start))s\t$viol\t$sig" | tee -a seeded/results.tsv
done
