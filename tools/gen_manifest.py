#!/usr/bin/env python3
"""Regenerates /verif/MANIFEST.json from the table below (single source of truth)."""
import json, os, subprocess
ROOT = os.path.dirname(os.path.dirname(os.path.abspath(__file__)))

# id -> (category, technique, level text, level note, design ref)
SRV_NOTE = "Server is a binary crate: messages.rs / password.rs are compiled into harness/chk_srv via #[path], no hook."
CLAIMED = {
 "C27": ("exploration",
         "property-based testing of the frontend decoder: independent encoder, mutated length fields / terminators, concatenated frames, truncations; round-trip and framing oracle",
         "Generated-input search: 10M byte streams quick / 100M thorough (well-formed frames from an independent encoder, length-field mutations, missing terminators, raw bytes, concatenations, every truncation of small frames): no panic, bytes consumed <= declared frame, well-formed frames decode to themselves and leave the following bytes untouched.",
         SRV_NOTE + " Ordinary panics are caught in-process; the decoder has no recursion or unsafe code.",
         "DESIGN.md §6 C27"),
 "C28": ("exploration",
         "property-based testing of backend message encoding against an independent PostgreSQL v3 frame parser",
         "Generated-input search: 15M messages quick / 120M thorough over every BackendMessage variant with arbitrary (empty, non-ASCII, long) strings and 0-2000 fields; exactly one frame, length field = bytes after the type byte, parsed fields equal the message.",
         SRV_NOTE + " NUL inside C-strings and >32767 fields are outside the representable domain.",
         "DESIGN.md §6 C28"),
 "C29": ("exploration",
         "model-based testing of PasswordStore against the PostgreSQL MD5 formula and an Argon2 reference, with near-miss responses",
         "Generated-input search: 400k stores x probes quick / 10M thorough (users with {MD5} and Argon2 secrets, load_from_file, correct / prefix-less / case-changed / truncated / other-user / other-salt responses): accepted iff the reference formula says so.",
         SRV_NOTE + " Argon2 default-cost hashing is sampled 1/1000; the rest uses harness-made PHC strings with small memory cost.",
         "DESIGN.md §6 C29"),
 "C01": ("exploration",
         "differential testing against bundled SQLite over generated schemas/data/queries (proptest choice tape, typed SQL grammar), bag model for INTERSECT/EXCEPT ALL",
         "Generated-input search with an independent reference engine: every case builds the same tables in vibesql and SQLite, renders one typed query in both dialects and compares multisets (sequences under a total ORDER BY). 40k cases quick / 1.5M thorough; regions with recorded defects are excluded by construction in 80% of the budget and classified by structural trigger in the rest.",
         "Trusts SQLite 3.46 as reference on the shared subset, the renderer's dialect mapping (NULLS LAST, booleans as 0/1) and the 25-line bag model (self-validated against SQLite on every distinct set operation). The columnar gate is forced off through the verif hook in the avoid budget; its agreement with the row path is C03's subject.",
         "DESIGN.md §6 C01"),
 "C03": ("exploration",
         "differential testing of one statement on two execution paths (verif hook forces the columnar gate off) plus a gate-dodging metamorphic rewrite, over generated tables and gate-eligible aggregate queries",
         "Generated-input search: 300k (quick) / 8M (thorough) single-table aggregate queries the columnar gate accepts; each is run with the gate on, with the gate forced off, and as a rewrite the gate rejects; results must agree, COUNT must never be NULL. A hook counter proves the fast path really produced the answer (class floor 60%).",
         "The row path is the reference (its own correctness is C07). Hook = two thread-locals in vibesql-executor behind cargo feature verif. Regions of the eight recorded columnar defects are excluded by construction in 80% of the budget.",
         "DESIGN.md §6 C03"),
 "C04": ("exploration",
         "configuration differential across processes: the same generated world and queries are executed in long-lived child processes that differ only in PARALLEL_THRESHOLD / RAYON_NUM_THREADS (never parallel vs every operator parallel at every size, 4 and 2 workers), each query twice per process; answers are compared across processes and across the two executions",
         "Generated-input search: 12k worlds (about 23k queries x 3 configurations x 2 executions) quick / 150k thorough; tables of up to 10 or up to 60 rows, queries from the typed grammar (joins incl. hash-join shapes, WHERE, subqueries, DISTINCT, aggregates, GROUP BY/HAVING, set operations, ORDER BY over all output columns with LIMIT/OFFSET).",
         "rayon's thread interleavings are sampled, not enumerated (one schedule per configuration and case); DOUBLE results compared with tolerance 1e-9; a child that dies or hangs makes the run inconclusive (exit 2), not a violation.",
         "DESIGN.md §6 C04"),
 "C05": ("exploration",
         "metamorphic + model-based testing: rewrite families (comma-join permutations, CROSS JOIN+WHERE, INNER JOIN chains, derived-table wrapping, IN / EXISTS / JOIN DISTINCT, NOT EXISTS / LEFT JOIN IS NULL / NOT IN) each compared with a definitional nested-loop evaluation computed by the harness",
         "Generated-input search: 150k families quick / 6M thorough over 2-3 tables with NULL and duplicate keys and empty sides, with and without an index on the inner key; every member must return the multiset of the ~60-line definitional model (NOT IN against its own 3VL definition).",
         "Join equality = SQL equality (NULL never matches). Members with a recorded defect are still executed and counted but do not stop the case.",
         "DESIGN.md §6 C05"),
 "C06": ("exploration",
         "metamorphic testing: ternary-logic partitioning (TLP) and NoREC over generated schemas, data and predicates",
         "Generated-input search with a metamorphic oracle that needs no expected output: Q must equal the disjoint union of Q AND p, Q AND NOT p, Q AND p IS NULL (plain, DISTINCT, JOIN ON, GROUP BY aggregates combined arithmetically, HAVING, ungrouped aggregates), and #rows WHERE p must equal #TRUE of SELECT p. 200k cases x 4 queries quick.",
         "All four queries run on vibesql itself: a defect shifting all of them alike is invisible here (C01 covers it). Columnar gate forced off by hook while its findings are open.",
         "DESIGN.md §6 C06"),
 "C07": ("exploration",
         "model-based testing: generated tables and aggregate queries checked against an executable definition of COUNT/SUM/AVG/MIN/MAX/DISTINCT/GROUP BY/HAVING written in the harness",
         "Generated-input search against a reference model (i128 integer sums, f64 float sums with scaled tolerance, NULL groups, empty input): 300k cases quick / 8M thorough over both execution paths (hook-controlled).",
         "Model grouping equality = documented SqlValue Eq (NULL=NULL, 0.0=-0.0). While the f32-precision findings are open, DOUBLE values come from an f32-exact pool in 80% of the budget.",
         "DESIGN.md §6 C07"),
 "C02": ("exploration",
         "differential testing on twin databases (with / without secondary indexes) over generated DML histories and WHERE/ORDER BY shapes",
         "Generated-input search: 40k histories quick / 1.5M thorough; every history (INSERT/UPDATE/DELETE/DROP+CREATE INDEX) is applied to two databases that differ only in index DDL, then 1-6 SELECTs must return identical multisets (sequences under a total ORDER BY) and every DML identical counts.",
         "The index-free twin is the reference (its correctness is C01/C06). Index shapes: single/multi-column, ASC/DESC, VARCHAR prefix, UNIQUE.",
         "DESIGN.md §6 C02"),
 "C08": ("exploration",
         "model-based testing of ORDER BY/LIMIT/OFFSET/DISTINCT: result sequence checked against an independently computed unordered result and the documented order predicate",
         "Generated-input search: 150k cases quick / 4M thorough; the unordered result is computed by the harness model from the table; the engine's answer must be sorted (NULLs last), be the right slice key-wise, be a sub-multiset with complete interior tie groups, with and without a usable index.",
         "NULLs-last in both directions as documented in order.rs; ties compared only through key sequences and group completeness.",
         "DESIGN.md §6 C08"),
 "C31": ("exploration",
         "property-based testing of the CLI copy import/export code paths (real source files compiled via #[path]): export->import round-trip and import of independently generated RFC 4180 CSV / JSON files against the harness's own readers, with a table-set / other-table safety oracle",
         "Generated-input search: 40k cases quick / 1.2M thorough; values with commas, quotes, newlines, SQL fragments, the text NULL, empty strings and NULLs; after import the table must equal the file's records, the set of tables and all other tables must be unchanged.",
         "CLI is a binary crate and the copy meta-command is REPL-only: the harness calls MetaCommand::parse + SqlExecutor::handle_copy exactly as repl.rs does; println!/eprintln! are captured. CSV NULL = empty field as documented in docs/CLI_GUIDE.md.",
         "DESIGN.md §6 C31"),
 "C09": ("exploration",
         "model-based testing of DML effects: generated statement histories applied to the engine and to an executable model of INSERT/UPDATE/DELETE (three-valued WHERE, SET on pre-update values); table contents and reported counts compared after every statement",
         "Generated-input search: 400k histories quick / 10M thorough of up to 12 statements on a table with optional single/compound primary key, incl. the PK fast-path WHERE shapes, key updates and swaps; a legal statement the engine refuses is a failure unless it is an UPDATE that can hit a transient duplicate.",
         "Reference = the harness's DML model (dml.rs). Constraint-free except PRIMARY KEY; other properties' deviations are counted, not reported.",
         "DESIGN.md §6 C09"),
 "C10": ("exploration",
         "model-based + invariant testing of integrity constraints over generated DML histories (PRIMARY KEY, UNIQUE, UNIQUE indexes, NOT NULL, CHECK)",
         "Generated-input search: 400k histories quick / 10M thorough; after every statement, successful or not, a validator checks every declared constraint on the engine's rows, and every statement whose final state would violate a constraint according to the model must be rejected.",
         "Final-state constraint semantics; an engine that is stricter (rejects transient duplicates) is accepted. Validator and model are ~150 lines in dml.rs.",
         "DESIGN.md §6 C10"),
 "C11": ("exploration",
         "model-based testing of statement atomicity: generated multi-row statements that fail on a later row (NOT NULL / PK / UNIQUE / CHECK / FK / RESTRICT after cascades); database compared with the pre-statement state after every error",
         "Generated-input search over failure positions: 400k histories quick / 10M thorough; every statement that returns an error must leave all tables equal to the model's pre-state; classes record which rejection kinds were exercised.",
         "Failure points are those reachable through SQL (k-th row of a multi-row statement, k-th candidate of an UPDATE/DELETE); trigger-induced failures are C34's subject.",
         "DESIGN.md §6 C11"),
 "C12": ("exploration",
         "model-based testing of referential integrity: generated parent/child/grandchild and self-referencing schemas with every ON DELETE / ON UPDATE action (table-level and column-level syntax), histories compared with a model of cascade / SET NULL closure plus an orphan scan after every statement",
         "Generated-input search: 400k histories quick / 10M thorough; no orphan may exist after any statement, child tables must equal the model's action closure, orphaning or restricted statements must be rejected.",
         "Single-column foreign keys referencing a single-column primary key; SET DEFAULT not generated.",
         "DESIGN.md §6 C12"),
 "C13": ("exploration",
         "history invariant + twin-database differential for transactions: the engine's complete observation (tables, columns, rows, index names, views, triggers) and a battery of index-driven queries before BEGIN vs after ROLLBACK, later statements vs a twin that executed only the committed prefix; COMMIT vs a twin that ran the body in auto-commit mode",
         "Generated-input search: 60k histories quick / 1M thorough; bodies mix DML on tables with PRIMARY KEY / UNIQUE / user indexes / FOREIGN KEYs with CREATE INDEX, DROP INDEX, CREATE/DROP TABLE, CREATE/DROP VIEW, ALTER TABLE ADD COLUMN, TRUNCATE; 0-4 statements follow the end of the transaction and are compared with the twin after each.",
         "Single session; the reference is the engine itself (own earlier observation / re-executed twin), so defects common to both sides belong to C09-C15.",
         "DESIGN.md §6 C13"),
 "C14": ("exploration",
         "history invariant over the engine's own table contents for savepoints: contents recorded when SAVEPOINT s executed must reappear after ROLLBACK TO s (storage scan and SELECT *), s stays usable, later savepoints are destroyed, RELEASE/SAVEPOINT/COMMIT change no data",
         "Generated-input search: 200k histories quick / 5M thorough of INSERT / UPDATE / DELETE / TRUNCATE / INSERT..SELECT (failing statements and FK cascades included) interleaved with SAVEPOINT, ROLLBACK TO (live, repeated, destroyed) and RELEASE inside one transaction.",
         "Only table contents are compared, as the property states; savepoints later than a released one are never referenced again because the statement does not define their fate.",
         "DESIGN.md §6 C14"),
 "C33": ("exploration",
         "model-based (stateful) testing of schema changes: histories of CREATE/DROP TABLE, CREATE/DROP INDEX, ALTER TABLE ADD/DROP/CHANGE COLUMN, ADD/DROP CONSTRAINT and DML with heavy name re-use and identifier case variants, compared after every statement with a model of tables, columns, rows and indexes",
         "Generated-input search: 40k histories (about 500k statements) quick / 600k histories thorough; after every statement: statement validity agrees with the model, list_tables / catalog schema / stored schema / stored rows / SELECT * / SELECT <declared columns> / list_indexes / index-driven probes all equal the model.",
         "RENAME TABLE, MODIFY COLUMN and dropping/renaming a column used by an index or constraint are outside the generated domain (the statement does not define their outcome); unquoted identifiers only.",
         "DESIGN.md §6 C33"),
 "C34": ("exploration",
         "model-based testing of trigger firing: generated trigger sets (BEFORE/AFTER x INSERT/UPDATE/UPDATE OF/DELETE x ROW/STATEMENT x WHEN) whose bodies write OLD/NEW images to an audit table or fail for rows with a NULL; the audit multiset after every generated DML statement is compared with a model of the firings",
         "Generated-input search: 600k histories (about 2.6M statements) quick / 15M thorough with single/multi-row INSERT, UPDATE and DELETE matching zero, one or many rows; exactly one audit row per (matching trigger x affected row whose WHEN holds) with that row's images, one per matching statement trigger (also for zero rows), and a failing body must fail the statement with the table unchanged.",
         "Triggers are created through the AST (TriggerAction::RawSql) as the repository's tests do; firing order is not compared; UPDATE OF on an assigned-but-unchanged column may or may not fire.",
         "DESIGN.md §6 C34"),
 "C30": ("exploration",
         "differential property-based testing (Hypothesis, stateful sequences on one cursor) of DB-API parameter binding: every parameterised execute is compared with a reference connection that runs the same statement with the harness's own correct literal substitution, plus a read-back rule on bound values",
         "Generated-input search: 4k examples quick / 75k thorough of 2-6 execute(sql, params) calls re-using 1-3 SQL texts with 0-4 placeholders, `?` inside literals / quoted identifiers / comments, and int/float/str/bool/None values with edge cases; rows, rowcount and every table are compared after each step.",
         "Values without an SQL literal (NaN, inf, ints beyond 64 bits) must raise or round-trip; steps that raise on both sides do not count as non-trivial.",
         "DESIGN.md §6 C30"),
 "C32": ("exploration",
         "metamorphic testing of views and CTEs: a generated query over v0 is executed with v0 as a view, as a WITH clause and with v0 replaced by its defining SELECT as a derived table; the three forms must agree, again after every generated change of the base tables",
         "Generated-input search: 100k cases quick / 2M thorough; definitions with joins, WHERE, CASE/COALESCE, DISTINCT, aggregates/GROUP BY/HAVING and explicit column lists; outer queries with WHERE on view columns, joins with base tables, aggregates, set operations; empty views and views created before their tables are loaded are generated on purpose.",
         "The reference is the engine's own derived-table execution (C01 decides that); no LIMIT/OFFSET, RIGHT/FULL joins, self joins or subqueries in the outer query.",
         "DESIGN.md §6 C32"),
 "C16": ("exploration",
         "configuration differential on twin databases: the same generated DDL/DML history and queries run on Database::new() (in-memory indexes) and on a database with memory budget 0 and SpillPolicy::SpillToDisk (every non-empty index is spilled to and maintained in the disk-backed B+ tree)",
         "Generated-input search: 25k histories (about 75k compared queries) quick / 300k thorough, cases as in C02 (duplicate keys, NULL keys, multi-column / DESC / prefix / UNIQUE indexes, updates of indexed columns, deletes, DROP+CREATE INDEX); a floor requires that at least half of the cases run statements against a disk-backed index.",
         "The 100k-row table-size threshold selects the same DiskBacked code and is not generated; the in-memory twin is the reference (C02 compares it with index-free execution).",
         "DESIGN.md §6 C16"),
 "C25": ("exploration",
         "differential testing of a query-result-cache client: generated read/write histories over confusable query texts are answered through QueryResultCache keyed by QuerySignature::from_sql with the library's table extractor (as the in-repo adapter does), and every cache hit is compared with an uncached execution on the same database state",
         "Generated-input search: 60k histories (about 600k reads) quick / 1.5M thorough; 26 query shapes placing table references in subqueries (WHERE, select list, HAVING, ORDER BY, JOIN ON, CASE ...), joins, CTEs, views, set-operation arms, derived tables; literal variants differing in case / inner whitespace; spelling variants in keyword case, spacing and comments; writes INSERT/UPDATE/DELETE/DROP+CREATE.",
         "The cache client is written like tests/sqllogictest/db_adapter.rs (invalidate_table(stmt.table_name) on writes); a mismatch counts only when two uncached executions agree with each other.",
         "DESIGN.md §6 C25"),
 "C26": ("exploration",
         "model-based (stateful) testing of access control: histories of CREATE ROLE / GRANT / REVOKE executed as admin interleaved with statements executed under non-admin roles in every access shape; a model held(role, object, privilege) follows the successful GRANT/REVOKE statements",
         "Generated-input search: 120k histories (about 1M role statements) quick / 3M thorough over 140 access shapes (scans, index scans, joins, subqueries in every clause, views, CTEs, set operations, derived tables, INSERT..SELECT, UPDATE/DELETE with subqueries, upserts, TRUNCATE); a statement lacking a needed privilege must fail and leave observe(db) unchanged; non-interference probes on perturbed clones detect reads of unprivileged tables; writes are judged by their effects.",
         "The converse (all privileges held => no PermissionDenied) is demanded for plain tables only; references the engine never has to evaluate are counted, not demanded.",
         "DESIGN.md §6 C26"),
 "C23": ("exploration",
         "totality fuzzing of the SQL parser in isolated child processes (main thread, 8 MiB stack): grammar-generated valid statements mutated at token level, lexer stress forms, dictionary soup and nesting-depth ladders per construct; thorough tier adds a coverage-guided libFuzzer campaign (cargo-fuzz target `parse`) whose artifacts become replay files",
         "Generated-input search: 150k generated + 6.8k fixed cases quick / 1.2M cases + 4M libFuzzer executions thorough; every input up to 64 KiB must return Ok or Err: no panic, no stack overflow (SIGSEGV classified in the worker), no CPU hang.",
         "Per-construct overflow thresholds steer the generator only, not the oracle; libFuzzer campaigns are pinned approximately (-seed, -runs), the saved artifact is the reproducible unit.",
         "DESIGN.md §6 C23"),
 "C24": ("exploration",
         "totality and exactness fuzzing of statement execution in isolated child processes: generated worlds with taught extremes, short histories and one 'wild' statement built without typing discipline (or a typed integer expression / SUM evaluated in i128 by the harness); thorough tier adds a libFuzzer campaign (target `exec`)",
         "Generated-input search: 40k generated + 4k grid cases quick / 600k cases + 400k libFuzzer executions thorough; every executor entry point returns Ok or Err without panic, the database stays usable afterwards (COUNT(*) on every table, fresh CREATE/INSERT/SELECT), and integer +,-,* and SUM results equal the i128 value or are an error / NULL.",
         "The harness profile has overflow-checks on, so a silent wrap surfaces as a panic; each finding text says what a release build does. Clock-dependent functions are not generated.",
         "DESIGN.md §6 C24"),
 "C15": ("exploration",
         "invariant testing of index structures: after every statement of a generated history the PK hash index, UNIQUE hash indexes and every user index map are compared with a rebuild from scratch on a clone",
         "Generated-input search: 250k histories quick / 6M thorough with position-shifting deletes, updates of indexed/key columns, DELETE-all/TRUNCATE, INSERT..SELECT; uses only public APIs (primary_key_index, unique_indexes, get_index_data, rebuild_indexes).",
         "In-memory index backend (the disk-backed backend is C16/C17). A history stops being checked once the engine has accepted a constraint-violating statement (C10's subject).",
         "DESIGN.md §6 C15"),
 "C17": ("exploration",
         "model-based (stateful) testing of the disk-backed B+ tree against BTreeMap<Key, Vec<RowId>> with a structural well-formedness walk (verif hook) after every mutating operation",
         "Generated-input search: 4k operation sequences (1.4M operations) quick / 100k sequences thorough over key schemas forcing degrees 5-8 and 204, starting empty or bulk-loaded, with insert / delete / delete_specific / lookup / multi_lookup / range_scan (all bound combinations) / reopen; answers must equal the map and the tree must stay sorted, depth-uniform and leaf-chained.",
         "fsync is stubbed out by a pass-through StorageBackend (files still on disk under /verif/target/tmp); well-formedness uses BTreeIndex::verif_walk (cargo feature verif) cross-checked by an independent guard walk.",
         "DESIGN.md §6 C17"),
 "C22": ("exploration",
         "round-trip + totality property testing of DATE/TIME/TIMESTAMP/INTERVAL text parsing (valid component combinations and mutated strings with non-ASCII digits, multibyte fractions, overflowing fields)",
         "Generated-input search: 40M strings/values quick / 300M thorough; parse(format(v)) == v for every valid value, and parsing any string returns a value or an error without panicking (overflow checks are ON in the harness profile).",
         "Years 1..=9999; Interval equality is the type's own (months, days, microseconds).",
         "DESIGN.md §6 C22"),
 "C21": ("exploration",
         "property-based testing (proptest choice tape): algebraic laws over generated SqlValue triples + documented interval model",
         "Generated-input search: millions of SqlValue triples biased to NaN/±0/inf/extreme ints/unit-converted intervals are checked against the Eq/Ord/Hash laws and an independent interval decomposition. Laws over three values are cheap and the taught pools cover every variant pair, so exploration is the right level; it does not show absence.",
         "Trusts std DefaultHasher as the hasher the engine uses; interval model table written from interval.rs doc comments.",
         "DESIGN.md §6 C21"),
}

def sh(cmd):
    return subprocess.run(cmd, shell=True, capture_output=True, text=True).stdout.strip()

props = [json.loads(l) for l in open(os.path.join(ROOT, "properties.jsonl"))]
NA_REASON = {}
try:
    NA_REASON = json.load(open(os.path.join(ROOT, "tools", "not_applicable.json")))
except FileNotFoundError:
    pass

ENGINES = {
    "chk_srv": {"path": "harness/chk_srv", "props": ["C27", "C28", "C29"], "text": "Rust binary on the same vcore runner; compiles the server's protocol/auth source files via #[path]"},
    "chk_store": {"path": "harness/chk_store", "props": ["C17", "C22"], "text": "Rust binary on the same vcore runner; B+ tree and temporal-type checks"},
    "chk_cli": {"path": "harness/chk_cli", "props": ["C31"], "text": "Rust binary on the same vcore runner; compiles the CLI's commands/data_io/executor source files via #[path]"},
    "chk_persist": {"path": "harness/chk_persist", "props": ["C18", "C19", "C20"], "text": "Rust binary on the same vcore runner; save/load round-trips and damaged-file loading in isolated child processes with a counting allocator"},
    "chk_total": {"path": "harness/chk_total", "props": ["C23", "C24"], "text": "Rust binary on the same vcore runner (child-process isolation) plus cargo-fuzz/libFuzzer targets under /verif/fuzz for the thorough tier"},
    "chk_sec": {"path": "harness/chk_sec", "props": ["C25", "C26"], "text": "Rust binary on the same vcore runner; privilege model and query-result-cache client"},
    "py_c30": {"path": "py/c30.py", "props": ["C30"], "text": "Python: Hypothesis 6.168 (seeded, database=None) against the pyo3 extension built from /repo; reference connection with the harness's own literal substitution"},
}
def engine_of(pid):
    for n, e in ENGINES.items():
        if pid in e["props"]:
            return n
    return "vcheck"

checks = []
na = []
for p in props:
    pid = p["id"]
    if pid in CLAIMED:
        cat, tech, text, note, ref = CLAIMED[pid]
        checks.append({
            "property_id": pid,
            "quick_cmd": f"./check {pid} quick",
            "thorough_cmd": f"./check {pid} thorough",
            "evidence_file": f"/verif/evidence/{pid}.json",
            "replay_cmd_template": f"./check {pid} --replay {{path}}",
            "engine": engine_of(pid),
            "level_claimed": {"category": cat, "text": text, "design_ref": ref},
            "level_note": note,
            "technique": tech,
        })
    else:
        na.append({"property_id": pid, "reason": NA_REASON.get(pid, "check not built yet in this session (planned in DESIGN.md §6); not claimed until its machinery exists and is silent on the unchanged tree")})

hooks = sh("git -C /repo log --format=%H --grep='^verif hook' ").split()
manifest = {
    "version": 1,
    "setup_cmd": "./setup.sh",
    "hooks": {
        "guard": "cargo feature `verif` (vibesql-storage/verif, vibesql-executor/verif), default off",
        "enable": "harness/Cargo.toml depends on /repo/crates/vibesql-{storage,executor} with features=[\"verif\"]; ./check rebuilds with it on",
        "baseline_off_cmd": "cd /repo && RUSTC_WRAPPER= cargo nextest run --workspace --no-fail-fast --offline",
        "source_commits": hooks,
        "add_only": True,
    },
    "engines": [dict(name=n, path=e["path"], serves_properties=sorted(x for x in e["props"] if x in CLAIMED), kind_free_text=e["text"]) for n, e in ENGINES.items() if any(x in CLAIMED for x in e["props"])]
             + [dict(name="vcheck", path="harness/", serves_properties=sorted(k for k in CLAIMED if engine_of(k) == "vcheck"), kind_free_text="Rust binary: proptest 1.11 TestRunner driving a choice tape -> typed case IR -> explicit oracle; shrinks to a JSON replay file; child-process isolation for totality properties")],
    "checks": checks,
    "not_applicable": na,
    "notes": "All commands run with cwd=/verif. VERIF_SEED selects the PRNG stream (default 1). Exit 0 held / 1 VIOLATION / 2 inconclusive. known_findings.json lists recorded and fixed defects.",
}
json.dump(manifest, open(os.path.join(ROOT, "MANIFEST.json"), "w"), indent=1)
print("claimed:", len(checks), "not claimed:", len(na))
