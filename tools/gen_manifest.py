#!/usr/bin/env python3
"""Regenerates /verif/MANIFEST.json from the table below (single source of truth)."""
import json, os, subprocess
ROOT = os.path.dirname(os.path.dirname(os.path.abspath(__file__)))

# id -> (category, technique, level text, level note, design ref)
CLAIMED = {
 "C01": ("exploration",
         "differential testing against bundled SQLite over generated schemas/data/queries (proptest choice tape, typed SQL grammar), bag model for INTERSECT/EXCEPT ALL",
         "Generated-input search with an independent reference engine: every case builds the same tables in vibesql and SQLite, renders one typed query in both dialects and compares multisets (sequences under a total ORDER BY). 40k cases quick / 1.5M thorough; regions with recorded defects are excluded by construction in 80% of the budget and classified by structural trigger in the rest.",
         "Trusts SQLite 3.46 as reference on the shared subset, the renderer's dialect mapping (NULLS LAST, booleans as 0/1) and the 25-line bag model (self-validated against SQLite on every distinct set operation). The columnar gate is forced off through the verif hook in the avoid budget; its agreement with the row path is C03's subject.",
         "DESIGN.md §6 C01"),
 "C21": ("exploration",
         "property-based testing (proptest choice tape): algebraic laws over generated SqlValue triples + documented interval model",
         "Generated-input search: millions of SqlValue triples biased to NaN/±0/inf/extreme ints/unit-converted intervals are checked against the Eq/Ord/Hash laws and an independent interval decomposition. Laws over three values are cheap and the taught pools cover every variant pair, so exploration is the right level; it does not show absence.",
         "Trusts std DefaultHasher as the hasher the engine uses; interval model table written from interval.rs doc comments.",
         "DESIGN.md §6 C21"),
}

def sh(cmd):
    return subprocess.run(cmd, shell=True, capture_output=True, text=True).stdout.strip()

props = [json.loads(l) for l in open(os.path.join(ROOT, "properties.jsonl"))]
NA_REASON = {}
try:
    NA_REASON = json.load(open(os.path.join(ROOT, "tools", "not_applicable.json")))
except FileNotFoundError:
    pass

checks = []
na = []
for p in props:
    pid = p["id"]
    if pid in CLAIMED:
        cat, tech, text, note, ref = CLAIMED[pid]
        checks.append({
            "property_id": pid,
            "quick_cmd": f"./check {pid} quick",
            "thorough_cmd": f"./check {pid} thorough",
            "evidence_file": f"/verif/evidence/{pid}.json",
            "replay_cmd_template": f"./check {pid} --replay {{path}}",
            "engine": "vcheck",
            "level_claimed": {"category": cat, "text": text, "design_ref": ref},
            "level_note": note,
            "technique": tech,
        })
    else:
        na.append({"property_id": pid, "reason": NA_REASON.get(pid, "check not built yet in this session (planned in DESIGN.md §6); not claimed until its machinery exists and is silent on the unchanged tree")})

hooks = sh("git -C /repo log --format=%H --grep='^verif hook' ").split()
manifest = {
    "version": 1,
    "setup_cmd": "./setup.sh",
    "hooks": {
        "guard": "cargo feature `verif` (vibesql-storage/verif, vibesql-executor/verif), default off",
        "enable": "harness/Cargo.toml depends on /repo/crates/vibesql-{storage,executor} with features=[\"verif\"]; ./check rebuilds with it on",
        "baseline_off_cmd": "cd /repo && RUSTC_WRAPPER= cargo nextest run --workspace --no-fail-fast --offline",
        "source_commits": hooks,
        "add_only": True,
    },
    "engines": [
        {"name": "vcheck", "path": "harness/", "serves_properties": sorted(CLAIMED.keys()),
         "kind_free_text": "Rust binary: proptest 1.11 TestRunner driving a choice tape -> typed case IR -> explicit oracle; shrinks to a JSON replay file; child-process isolation for totality properties"},
    ],
    "checks": checks,
    "not_applicable": na,
    "notes": "All commands run with cwd=/verif. VERIF_SEED selects the PRNG stream (default 1). Exit 0 held / 1 VIOLATION / 2 inconclusive. known_findings.json lists recorded and fixed defects.",
}
json.dump(manifest, open(os.path.join(ROOT, "MANIFEST.json"), "w"), indent=1)
print("claimed:", len(checks), "not claimed:", len(na))
