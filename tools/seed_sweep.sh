#!/bin/bash
# usage: tools/seed_sweep.sh "<seeds>" [ids...]   -- runs quick tier of every claimed check for the given seeds
cd /verif
SEEDS="$1"; shift
IDS="$@"
[ -z "$IDS" ] && IDS=$(python3 -c "import json;print(' '.join(c['property_id'] for c in json.load(open('MANIFEST.json'))['checks']))")
for s in $SEEDS; do
  for id in $IDS; do
    start=$(date +%s)
    out=$(VERIF_SEED=$s timeout 3600 ./check $id quick 2>&1); rc=$?
    end=$(date +%s)
    echo "seed=$s $id rc=$rc t=$((end-start))s $(echo "$out" | grep -c '^KNOWN-FINDING') known $(echo "$out" | grep -m1 '^VIOLATION\|inconclusive')"
  done
done
