#!/usr/bin/env python3
"""Builds /verif/SENSITIVITY.md from the seeded changes under /verif/seeded and the result files
written by tools/eval_seeded_isolated.sh (results_round1.tsv .. results.tsv, results_cross.tsv)."""
import json, os, glob, collections

ROOT = os.path.dirname(os.path.dirname(os.path.abspath(__file__)))
S = os.path.join(ROOT, "seeded")

ROUNDS = [("1", "results_round1.tsv"), ("2", "results_round2.tsv"), ("3", "results_round3.tsv"), ("4", "results_round4.tsv"), ("5", "results.tsv")]
# why a change is (still) not detected by its property's quick tier
MISS_NOTES = {
    "C06/where-fast-path-float-le-int-excludes-equal": "C06's worlds have no DOUBLE columns; the boundary-literal atoms added to the single-table generator let the model-based checks (see cross results) see it",
    "C11/insert-trigger-undo-off-by-one": "C11 does not generate triggers (its design note leaves trigger-induced failures to C34); C34 detects the same change (see cross results and C34/failed-trigger-undo-keeps-first-row-of-statement)",
    "C12/update-composite-fk-any-column-matches": "not reached: the generator builds single-column FOREIGN KEYs only (stated in the check's assumptions)",
    "C20/unary-operand-skips-depth-guard": "not reached: with the guard bypassed for one node kind the stack of the verif-profile build only overflows beyond two million nested nodes, more than the 64 KiB-bounded crafted inputs hold (the seeding agent needed a 32 MiB stack and a debug build)",
}


def read_tsv(name):
    p = os.path.join(S, name)
    rows = {}
    if not os.path.exists(p):
        return rows
    for l in open(p):
        f = l.rstrip("\n").split("\t")
        if len(f) < 3:
            continue
        rows[f[0] + "/" + f[1]] = f
    return rows


rounds = [(n, read_tsv(f)) for n, f in ROUNDS]
cross = collections.defaultdict(list)
p = os.path.join(S, "results_cross.tsv")
if os.path.exists(p):
    for l in open(p):
        f = l.rstrip("\n").split("\t")
        if len(f) >= 4:
            cross[f[0] + "/" + f[1]].append((f[2].replace("cross:", ""), f[3], f[4] if len(f) > 4 else ""))

items = []
for d in sorted(glob.glob(os.path.join(S, "C*", "*"))):
    if not os.path.isfile(os.path.join(d, "patch.diff")):
        continue
    pid, name = d.split("/")[-2:]
    key = pid + "/" + name
    kind = ""
    try:
        kind = json.load(open(os.path.join(d, "meta.json"))).get("kind", "")
    except Exception:
        pass
    outcome, sig, rnd = "not evaluated", "", ""
    first_seen = next((n for n, r in rounds if key in r), "")
    for n, r in rounds:
        if key in r:
            f = r[key]
            if any(x == "rc=1" for x in f):
                outcome, rnd = "detected", n
                sig = f[-1] if not f[-1].endswith("s") and "=" not in f[-1] else (f[5] if len(f) > 5 else "")
                break
            elif "APPLY_FAILED" in f or "BUILD_FAILED" in f:
                outcome = "patch no longer applies"
            else:
                outcome = "missed"
    items.append((pid, name, kind, outcome, rnd, sig, key, first_seen))

det = sum(1 for i in items if i[3] == "detected")
first = sum(1 for i in items if i[3] == "detected" and i[4] == i[7])
out = []
out.append("# Sensitivity: seeded changes vs. the checks\n")
out.append("Independent sub-agents were given only the text of a few properties and a scratch git worktree of /repo (nothing from /verif) and asked for realistic changes that break a property while the touched crates still compile and their tests still pass, each with a demonstration. "
           "The changes are kept under `seeded/<ID>/<name>/` (`patch.diff`, `demonstration.md`, `meta.json`). `tools/eval_seeded_isolated.sh` applies each patch to a scratch worktree, rebuilds the harness against it and runs the *quick* tier of that property's check; a change counts as detected when the check exits 1 with a VIOLATION line.\n")
out.append(f"**{len(items)} seeded changes, {det} detected by the quick tier of their own property's check** ({first} of them at their first evaluation; the others after the generators were widened in response to the miss — the round column says when a change was first detected; changes arrived in batches, those for C03/C04/C17-C32 during rounds 2 and 3). The rest are listed with the reason.\n")
out.append("Rounds: 1 = checks as first built; 2 = after fixing the vacuous index mirror in C15 and adding REPLACE / ON DUPLICATE KEY UPDATE, composite UNIQUE, FOREIGN KEYs in C15, multi-column UPDATE OF, correlation-last EXISTS, OR-of-ANDs join filters and IN in GROUP BY position; 3 = after self-referencing and double FOREIGN KEYs in C12, constant and cross-type WHERE atoms, multi-chunk tables in C04, extra literal/type forms in C23, quote-containing literals in C25, view aliases in C32; 4 = after 1000-3000 row tables in the quick tier of C03/C07 (built from a repeated block of generated rows, since the first version exhausted the choice tape and produced constant columns) and a second UNIQUE constraint; 5 = after the open findings that masked most were repaired in /repo (columnar aggregate path, set-operation ORDER BY, SIMD WHERE filter, ON DUPLICATE KEY UPDATE, two-FK and self-referencing referential actions): only the changes of the affected properties (C01, C03-C07, C10-C12, C15, C30, C32) were evaluated again, against the repaired tree; DataType::Decimal columns (reachable through the table API only) were added to C18, and committed history replays are executed eight times because referential actions walk a HashMap of tables.\n")
out.append("| property | seeded change | slip | outcome | round | signature reported / note |")
out.append("|---|---|---|---|---|---|")
for pid, name, kind, outcome, rnd, sig, key, _first in items:
    note = sig
    if outcome != "detected":
        note = MISS_NOTES.get(key, "")
        cr = [f"{c}: {'detected' if rc == 'rc=1' else 'silent'}{(' (' + s + ')') if s else ''}" for c, rc, s in cross.get(key, [])]
        if cr:
            note += " — other checks: " + "; ".join(cr)
    out.append(f"| {pid} | {name} | {kind.replace('|', '/')[:160]} | {outcome} | {rnd} | {note.replace('|', '/')[:260]} |")
out.append("")
out.append("## What the misses changed\n")
out.append("* **C15** was the important one: all four seeded index defects passed at first. The comparison of user-defined indexes with a rebuild called `rebuild_indexes(\"t0\")` while the registry stores the table as `T0`, so the rebuild was a no-op and the comparison vacuous for `CREATE INDEX` indexes (the PRIMARY KEY / UNIQUE hash-index part was effective). Fixed; the unchanged tree stayed silent and all index mutants are detected.")
out.append("* Generator gaps closed because a seeded change (or a probe of the unchanged tree by a seeding agent) pointed at them: REPLACE and ON DUPLICATE KEY UPDATE (found REPLACE without index maintenance, fixed; upserts without constraint validation, recorded and repaired in round 5), composite UNIQUE in non-table column order (found a real defect: such constraints were never enforced, fixed), self-referencing and double FOREIGN KEYs (two real defects recorded, repaired in round 5), `pk = 2.0` and `WHERE 1` in UPDATE/DELETE (two real defects fixed), IN-subquery through the index with extra WHERE conjuncts (real defect fixed), multi-chunk parallel hash build, view aliases, literal forms with multi-byte bodies, ENUM/SET prefixes.")
out.append("* Masking by open findings was the largest single cause of misses after round 3 (a second defect in the region of a recorded one has the same signature). Rather than splitting signatures further, the masking findings were repaired in /repo where that was small and safe (round 5); the three C03 changes and the self-reference change of C12 are detected since.\n* Misses that remain: shapes deliberately outside the generated domain (composite FOREIGN KEYs), a stack-depth condition that the bounded inputs cannot reach in this build profile, and two changes that only the neighbouring property's check sees (see cross results).")
open(os.path.join(ROOT, "SENSITIVITY.md"), "w").write("\n".join(out) + "\n")
print(f"{len(items)} changes, {det} detected")
