#!/bin/bash
# Evaluate seeded changes WITHOUT touching /repo or /verif state: uses a git worktree of /repo
# (/tmp/evalrepo), a copy of the harness with paths rewritten (/tmp/evalharness, target /tmp/evaltarget)
# and a scratch VERIF_ROOT (/tmp/evalroot). usage: tools/eval_seeded_isolated.sh setup | run [<ID>/<name> ...] | clean
set -u
EV=/tmp/evalrepo; EH=/tmp/evalharness; ER=/tmp/evalroot; ET=/tmp/evaltarget
pkg_of() { case "$1" in C27|C28|C29) echo chk_srv;; C17|C22) echo chk_store;; C31) echo chk_cli;; C25|C26) echo chk_sec;; C18|C19|C20) echo chk_persist;; C23|C24) echo chk_total;; *) echo vcheck;; esac; }
case "${1:-}" in
setup)
  git -C /repo worktree remove --force $EV 2>/dev/null; rm -rf $EV $EH $ER
  git -C /repo worktree add --detach $EV HEAD >/dev/null || exit 2
  mkdir -p $EH $ER/evidence
  rsync -a --exclude target --exclude handoff /verif/harness/ $EH/
  grep -rl "/repo/" $EH --include=*.rs --include=*.toml | xargs sed -i "s#/repo/#$EV/#g"
  sed -i "s#/verif/target/harness#$ET#" $EH/.cargo/config.toml
  cp /verif/known_findings.json $ER/; rsync -a --exclude 'viol-*' /verif/replays $ER/
  echo "eval environment at $(git -C $EV rev-parse --short HEAD)"
  ;;
run)
  shift
  LIST="$@"; [ -z "$LIST" ] && LIST=$(cd /verif/seeded && ls -d C*/*/ | sed 's#/$##')
  for item in $LIST; do
    id=${item%%/*}; name=${item#*/}; p=/verif/seeded/$id/$name/patch.diff
    [ -f "$p" ] || continue
    grep -q "^$id	$name	" /verif/seeded/results.tsv 2>/dev/null && continue
    git -C $EV checkout -q -- . ; git -C $EV clean -fdq
    if git -C $EV apply --check "$p" 2>/dev/null; then git -C $EV apply "$p"
    elif git -C $EV apply --3way "$p" >/dev/null 2>&1 && ! git -C $EV diff --name-only --diff-filter=U | grep -q .; then git -C $EV reset -q
    else git -C $EV reset -q --hard; echo -e "$id\t$name\tAPPLY_FAILED" | tee -a /verif/seeded/results.tsv; continue; fi
    start=$(date +%s)
    if [ "$id" = "C30" ]; then
      out=$(cd /tmp && VERIF_ROOT=$ER VERIF_C30_REPO=$EV VERIF_C30_TARGET=$ET/py timeout 3000 python3-vt /verif/py/c30.py quick 2>&1); rc=$?
    else
      pkg=$(pkg_of $id)
      if ! (cd $EH && RUSTC_WRAPPER= cargo build --profile verif -p $pkg >/tmp/evalbuild.log 2>&1); then
        echo -e "$id\t$name\tBUILD_FAILED\t$(grep -m1 '^error' /tmp/evalbuild.log | cut -c1-100)" | tee -a /verif/seeded/results.tsv; continue; fi
      out=$(cd /tmp && VERIF_ROOT=$ER VERIF_SEED=${VERIF_SEED:-1} timeout 3000 $ET/verif/$pkg $id quick 2>&1); rc=$?
    fi
    end=$(date +%s)
    sig=$(echo "$out" | grep -m1 -o 'signature=[^ ]*' | cut -c11-90)
    viol=$(echo "$out" | grep -c '^VIOLATION')
    rm -f $ER/replays/$id/viol-*
    echo -e "$id\t$name\trc=$rc\tviolation_lines=$viol\t$((end-start))s\t$sig" | tee -a /verif/seeded/results.tsv
  done
  git -C $EV checkout -q -- . ; git -C $EV clean -fdq
  ;;
cross)
  # usage: cross <ID>/<name> <CHECK_ID> [<CHECK_ID>...]  -- run other properties' checks against one seeded change
  item=$2; shift 2
  id=${item%%/*}; name=${item#*/}; p=/verif/seeded/$id/$name/patch.diff
  git -C $EV checkout -q -- . ; git -C $EV clean -fdq
  git -C $EV apply "$p" || { echo "apply failed"; exit 2; }
  for cid in "$@"; do
    pkg=$(pkg_of $cid)
    (cd $EH && RUSTC_WRAPPER= cargo build --profile verif -p $pkg >/tmp/evalbuild.log 2>&1) || { echo "build failed"; continue; }
    out=$(cd /tmp && VERIF_ROOT=$ER timeout 3000 $ET/verif/$pkg $cid quick 2>&1); rc=$?
    sig=$(echo "$out" | grep -m1 -o 'signature=[^ ]*' | cut -c11-90)
    rm -f $ER/replays/$cid/viol-*
    echo -e "$id\t$name\tcross:$cid\trc=$rc\t$sig" | tee -a /verif/seeded/results_cross.tsv
  done
  git -C $EV checkout -q -- . ; git -C $EV clean -fdq
  ;;
clean)
  git -C /repo worktree remove --force $EV 2>/dev/null; rm -rf $EV $EH $ER $ET
  ;;
*) echo "usage: $0 setup|run|clean"; exit 2;;
esac
