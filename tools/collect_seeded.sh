#!/bin/bash
# copy finished seeded changes from /tmp/seeded_out into /verif/seeded (only complete ones)
mkdir -p /verif/seeded
for d in /tmp/seeded_out/C*/*/; do
  id=$(basename $(dirname $d)); name=$(basename $d)
  if [ -s $d/patch.diff ] && [ -s $d/demonstration.md ] && [ -s $d/meta.json ] && [ ! -d /verif/seeded/$id/$name ]; then
    mkdir -p /verif/seeded/$id; cp -r $d /verif/seeded/$id/$name; echo "collected $id/$name"
  fi
done
